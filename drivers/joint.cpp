// joint allocator family + smart pointer helpers with throwing element types (C20 R-GUARD, C11)
#include "common.hpp"

#include <initializer_list>
#include <vector>

namespace verif_drv
{
    using pool = mem::memory_pool<>;

    struct jt_throw : mem::joint_type<jt_throw>
    {
        mem::joint_array<thrower> a, b, c, d, e, f;
        jt_throw(mem::joint j, std::size_t n, const thrower& v, std::initializer_list<thrower> il, const thrower* first, const thrower* last,
                 const jt_throw& other)
        : mem::joint_type<jt_throw>(j), a(n, *this), b(n, v, *this), c(il, *this), d(first, last, *this), e(other.a, *this),
          f(static_cast<mem::joint_array<thrower>&&>(const_cast<jt_throw&>(other).b), *this)
        {
        }
        jt_throw(mem::joint j, const jt_throw& other) : mem::joint_type<jt_throw>(j), a(other.a, *this), b(other.b, *this), c(other.c, *this),
                                                        d(other.d, *this), e(other.e, *this), f(other.f, *this)
        {
        }
    };
    struct jt_nothrow : mem::joint_type<jt_nothrow>
    {
        mem::joint_array<nothrower> a, b;
        jt_nothrow(mem::joint j, std::size_t n) noexcept : mem::joint_type<jt_nothrow>(j), a(n, *this), b(n, nothrower{}, *this) {}
        jt_nothrow(mem::joint j, const jt_nothrow& o) : mem::joint_type<jt_nothrow>(j), a(o.a, *this), b(o.b, *this) {}
    };
    struct jt_mixed : mem::joint_type<jt_mixed>
    {
        mem::joint_array<mixed_thrower> a, b, c, d, e, f;
        jt_mixed(mem::joint j, std::size_t n, const mixed_thrower& v, std::initializer_list<mixed_thrower> il, const mixed_thrower* first,
                 const mixed_thrower* last, jt_mixed& other)
        : mem::joint_type<jt_mixed>(j), a(n, *this), b(n, v, *this), c(il, *this), d(first, last, *this), e(other.a, *this),
          f(static_cast<mem::joint_array<mixed_thrower>&&>(other.b), *this)
        {
        }
        jt_mixed(mem::joint j, const jt_mixed& other) : mem::joint_type<jt_mixed>(j), a(other.a, *this), b(other.b, *this), c(other.c, *this),
                                                        d(other.d, *this), e(other.e, *this), f(other.f, *this)
        {
        }
    };
    struct jt_container : mem::joint_type<jt_container>
    {
        std::vector<int, mem::std_allocator<int, mem::joint_allocator>> v;
        jt_container(mem::joint j) : mem::joint_type<jt_container>(j), v(mem::joint_allocator(*this)) {}
    };

    void drive_joint(pool& p, const mem::heap_allocator& h, const thrower& v, const jt_throw& other)
    {
        auto a = mem::allocate_joint<jt_throw>(p, mem::joint_size(100), std::size_t(3), v, std::initializer_list<thrower>{}, &v, &v, other);
        auto b = mem::allocate_joint<jt_nothrow>(h, mem::joint_size(100), std::size_t(3));
        auto c = mem::clone_joint(p, *a);
        auto d = mem::clone_joint(h, *b);
        auto e = mem::allocate_joint<jt_container>(p, mem::joint_size(64));
        mixed_thrower mv;
        jt_mixed*     mo = nullptr;
        auto          m1 = mem::allocate_joint<jt_mixed>(p, mem::joint_size(100), std::size_t(3), mv, std::initializer_list<mixed_thrower>{}, &mv, &mv, *mo);
        auto          m2 = mem::clone_joint(p, *m1);
        auto          u8 = mem::allocate_unique<mixed_thrower[]>(p, std::size_t(3));
        auto          u9 = mem::allocate_unique<mixed_thrower>(p, mv);
        mem::joint_ptr<jt_throw, pool> moved(static_cast<decltype(a)&&>(a));
        a = static_cast<decltype(a)&&>(moved);
        a.reset();
        a = nullptr;
        swap(a, c);
        (void)(a == nullptr);
        (void)(*a).a[0];
        mem::joint_allocator ja(*e);
        use_traits(ja);
        (void)(ja == ja);
        (void)a->a.size();
        for (auto& x : b->a)
            (void)x;
    }
} // namespace verif_drv
