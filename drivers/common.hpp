// Shared by the instantiation drivers.  Drivers are only ever *parsed* (by memfacts and by
// clang -fsyntax-only); they are never linked or run.  Their purpose is to make the compiler
// instantiate members of the library's class templates that no library TU instantiates, so that
// the rule engine sees them with resolved callees.
#ifndef VERIF_DRIVERS_COMMON_HPP
#define VERIF_DRIVERS_COMMON_HPP

#include <cstddef>
#include <mutex>

#include <foonathan/memory/aligned_allocator.hpp>
#include <foonathan/memory/allocator_storage.hpp>
#include <foonathan/memory/allocator_traits.hpp>
#include <foonathan/memory/debugging.hpp>
#include <foonathan/memory/default_allocator.hpp>
#include <foonathan/memory/deleter.hpp>
#include <foonathan/memory/error.hpp>
#include <foonathan/memory/fallback_allocator.hpp>
#include <foonathan/memory/heap_allocator.hpp>
#include <foonathan/memory/iteration_allocator.hpp>
#include <foonathan/memory/joint_allocator.hpp>
#include <foonathan/memory/malloc_allocator.hpp>
#include <foonathan/memory/memory_arena.hpp>
#include <foonathan/memory/memory_pool.hpp>
#include <foonathan/memory/memory_pool_collection.hpp>
#include <foonathan/memory/memory_resource_adapter.hpp>
#include <foonathan/memory/memory_stack.hpp>
#include <foonathan/memory/new_allocator.hpp>
#include <foonathan/memory/segregator.hpp>
#include <foonathan/memory/smart_ptr.hpp>
#include <foonathan/memory/static_allocator.hpp>
#include <foonathan/memory/std_allocator.hpp>
#include <foonathan/memory/temporary_allocator.hpp>
#include <foonathan/memory/threading.hpp>
#include <foonathan/memory/tracking.hpp>
#include <foonathan/memory/virtual_memory.hpp>

namespace verif_drv
{
    namespace mem = foonathan::memory;

    // a user-provided Mutex (BasicLockable); declared only
    struct user_mutex
    {
        void lock();
        bool try_lock();
        void unlock() noexcept;
    };

    // a minimal stateful user RawAllocator that only has the node functions (traits supply the rest)
    struct min_stateful_allocator
    {
        using is_stateful = std::true_type;
        void* allocate_node(std::size_t size, std::size_t alignment);
        void  deallocate_node(void* p, std::size_t size, std::size_t alignment) noexcept;
        int   state;
    };

    // a full user RawAllocator, stateful and composable
    struct full_composable_allocator
    {
        using is_stateful = std::true_type;
        void*       allocate_node(std::size_t size, std::size_t alignment);
        void*       allocate_array(std::size_t count, std::size_t size, std::size_t alignment);
        void        deallocate_node(void* p, std::size_t size, std::size_t alignment) noexcept;
        void        deallocate_array(void* p, std::size_t count, std::size_t size, std::size_t alignment) noexcept;
        void*       try_allocate_node(std::size_t size, std::size_t alignment) noexcept;
        void*       try_allocate_array(std::size_t count, std::size_t size, std::size_t alignment) noexcept;
        bool        try_deallocate_node(void* p, std::size_t size, std::size_t alignment) noexcept;
        bool        try_deallocate_array(void* p, std::size_t count, std::size_t size, std::size_t alignment) noexcept;
        std::size_t max_node_size() const;
        std::size_t max_array_size() const;
        std::size_t max_alignment() const;
        int         state;
    };

    // a stateless user allocator
    struct stateless_allocator
    {
        using is_stateful = std::false_type;
        void* allocate_node(std::size_t size, std::size_t alignment);
        void  deallocate_node(void* p, std::size_t size, std::size_t alignment) noexcept;
    };

    // a tracker (all callbacks declared noexcept as doc/concepts.md demands "must not throw")
    struct tracker
    {
        void on_node_allocation(void*, std::size_t, std::size_t) noexcept;
        void on_array_allocation(void*, std::size_t, std::size_t, std::size_t) noexcept;
        void on_node_deallocation(void*, std::size_t, std::size_t) noexcept;
        void on_array_deallocation(void*, std::size_t, std::size_t, std::size_t) noexcept;
        void on_allocator_growth(void*, std::size_t) noexcept;
        void on_allocator_shrinking(void*, std::size_t) noexcept;
    };

    // a tracker with state (makes any tracked_allocator stateful, whatever it wraps)
    struct counting_tracker
    {
        void on_node_allocation(void*, std::size_t, std::size_t) noexcept;
        void on_array_allocation(void*, std::size_t, std::size_t, std::size_t) noexcept;
        void on_node_deallocation(void*, std::size_t, std::size_t) noexcept;
        void on_array_deallocation(void*, std::size_t, std::size_t, std::size_t) noexcept;
        void on_allocator_growth(void*, std::size_t) noexcept;
        void on_allocator_shrinking(void*, std::size_t) noexcept;
        std::size_t count;
    };

    // element types for the object-creating helpers
    struct thrower
    {
        thrower() noexcept(false);
        thrower(int) noexcept(false);
        thrower(const thrower&) noexcept(false);
        thrower(thrower&&) noexcept(false);
        thrower& operator=(const thrower&) noexcept(false);
        ~thrower();
        int v;
    };
    // default and move construction cannot throw, copying can (the interesting case for noexcept-based dispatch)
    struct mixed_thrower
    {
        mixed_thrower() noexcept;
        mixed_thrower(int) noexcept;
        mixed_thrower(const mixed_thrower&) noexcept(false);
        mixed_thrower(mixed_thrower&&) noexcept;
        ~mixed_thrower();
        int v;
    };
    struct nothrower
    {
        nothrower() noexcept;
        nothrower(int) noexcept;
        nothrower(const nothrower&) noexcept;
        nothrower(nothrower&&) noexcept;
        ~nothrower();
        int v;
    };

    // odr-use every RawAllocator member function of A (the object is never created: drivers are not run)
    template <class A>
    void use_raw(A& a)
    {
        void* p = a.allocate_node(1, 1);
        a.deallocate_node(p, 1, 1);
        p = a.allocate_array(1, 1, 1);
        a.deallocate_array(p, 1, 1, 1);
        (void)a.max_node_size();
        (void)a.max_array_size();
        (void)a.max_alignment();
    }

    template <class A>
    void use_composable(A& a)
    {
        void* p = a.try_allocate_node(1, 1);
        (void)a.try_deallocate_node(p, 1, 1);
        p = a.try_allocate_array(1, 1, 1);
        (void)a.try_deallocate_array(p, 1, 1, 1);
    }

    template <class A>
    void use_traits(A& a)
    {
        using t = mem::allocator_traits<A>;
        void* p = t::allocate_node(a, 1, 1);
        t::deallocate_node(a, p, 1, 1);
        p = t::allocate_array(a, 1, 1, 1);
        t::deallocate_array(a, p, 1, 1, 1);
        (void)t::max_node_size(a);
        (void)t::max_array_size(a);
        (void)t::max_alignment(a);
    }

    template <class A>
    void use_composable_traits(A& a)
    {
        using t = mem::composable_allocator_traits<A>;
        void* p = t::try_allocate_node(a, 1, 1);
        (void)t::try_deallocate_node(a, p, 1, 1);
        p = t::try_allocate_array(a, 1, 1, 1);
        (void)t::try_deallocate_array(a, p, 1, 1, 1);
    }
} // namespace verif_drv

#endif
