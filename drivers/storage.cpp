// allocator_storage x storage policy x mutex (C13 R-LOCK, C09 R-FWD)
#include "common.hpp"

namespace verif_drv
{
    using pool  = mem::memory_pool<>;
    using stack = mem::memory_stack<>;

    template <class Policy, class Mutex>
    void storage_all(mem::allocator_storage<Policy, Mutex>& s)
    {
        use_raw(s);
        auto l = s.lock();
        auto lm = static_cast<decltype(l)&&>(l); // move constructor of the proxy
        (void)*lm;
        (void)lm.operator->();
        const auto& cs = s;
        auto        l2 = cs.lock();
        (void)l2;
        (void)s.is_composable();
    }
    template <class Policy, class Mutex>
    void storage_all_composable(mem::allocator_storage<Policy, Mutex>& s)
    {
        storage_all(s);
        use_composable(s);
    }

    void drive_storage(mem::allocator_storage<mem::direct_storage<pool>, std::mutex>&                    a,
                       mem::allocator_storage<mem::direct_storage<pool>, user_mutex>&                    b,
                       mem::allocator_storage<mem::direct_storage<pool>, mem::no_mutex>&                 c,
                       mem::allocator_storage<mem::direct_storage<stack>, std::mutex>&                   d,
                       mem::allocator_storage<mem::direct_storage<full_composable_allocator>, std::mutex>& e,
                       mem::allocator_storage<mem::direct_storage<min_stateful_allocator>, std::mutex>&  f,
                       mem::allocator_storage<mem::direct_storage<mem::heap_allocator>, std::mutex>&     g,
                       mem::allocator_storage<mem::reference_storage<pool>, std::mutex>&                 h,
                       mem::allocator_storage<mem::reference_storage<stateless_allocator>, std::mutex>&  i,
                       mem::allocator_storage<mem::reference_storage<mem::any_allocator>, std::mutex>&   j,
                       mem::allocator_storage<mem::reference_storage<mem::any_allocator>, mem::no_mutex>& k,
                       mem::allocator_storage<mem::reference_storage<min_stateful_allocator>, user_mutex>& l,
                       mem::allocator_storage<mem::direct_storage<mem::iteration_allocator<2>>, std::mutex>& m,
                       mem::allocator_storage<mem::direct_storage<mem::tracked_allocator<counting_tracker, mem::heap_allocator>>, std::mutex>& n,
                       mem::allocator_storage<mem::direct_storage<mem::aligned_allocator<mem::heap_allocator>>, std::mutex>& o,
                       mem::allocator_storage<mem::direct_storage<mem::fallback_allocator<mem::memory_pool<>, mem::heap_allocator>>, user_mutex>& q)
    {
        storage_all_composable(a);
        storage_all_composable(b);
        storage_all_composable(c);
        storage_all_composable(d);
        storage_all_composable(e);
        storage_all(f);
        storage_all(g);
        storage_all_composable(h);
        storage_all(i);
        storage_all_composable(j);
        storage_all_composable(k);
        storage_all(l);
        storage_all_composable(m);
        storage_all(n);
        storage_all(o);
        storage_all(q);
    }

    // type-erased references built from several allocator kinds (instantiates basic_allocator<...>)
    void drive_any(pool& p, stack& s, full_composable_allocator& f, min_stateful_allocator& m,
                   const stateless_allocator& sl, mem::heap_allocator h)
    {
        mem::any_allocator_reference r1(p), r2(s), r3(f), r4(m), r5(sl), r6(h);
        use_raw(r1);
        use_composable(r1);
    }

    // a type-erased reference made from the allocator object of another type-erased reference: what the library's converting
    // constructors and user code like any_std_allocator<T>(x.get_allocator()) do.  The constructor selected here must be the one
    // that clones the type-erasure wrapper (reference to the allocator), not the generic one (reference to the reference).
    void drive_any_from_any(mem::any_allocator_reference& r, const mem::any_allocator_reference& cr)
    {
        mem::any_allocator_reference again(r.get_allocator());
        mem::any_allocator_reference again_c(cr.get_allocator());
        mem::any_std_allocator<int>  a(r.get_allocator());
        use_raw(again);
        use_raw(again_c);
        (void)a;
    }
} // namespace verif_drv
