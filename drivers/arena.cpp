// arena-based allocators over several block sources and parameters (C01-C07, C18)
#include "common.hpp"

namespace verif_drv
{
    template <class Stack>
    void use_stack(Stack& s)
    {
        void* p = s.allocate(1, 1);
        (void)p;
        p = s.try_allocate(1, 1);
        auto m = s.top();
        s.unwind(m);
        (void)(m < m);
        (void)(m == m);
        (void)(m != m);
        (void)(m <= m);
        (void)(m > m);
        (void)(m >= m);
        s.shrink_to_fit();
        (void)s.capacity_left();
        (void)s.next_capacity();
        (void)s.get_allocator();
        (void)Stack::min_block_size(1);
        use_traits(s);
        use_composable_traits(s);
        mem::memory_stack_raii_unwind<Stack> u(s), u2(s, m);
        u = static_cast<mem::memory_stack_raii_unwind<Stack>&&>(u2);
        u.unwind();
        u.release();
        (void)u.will_unwind();
        Stack moved(static_cast<Stack&&>(s));
        s = static_cast<Stack&&>(moved);
    }

    template <class Pool>
    void use_pool(Pool& p)
    {
        void* n = p.allocate_node();
        p.deallocate_node(n);
        n = p.try_allocate_node();
        (void)p.try_deallocate_node(n);
        n = p.allocate_array(2);
        p.deallocate_array(n, 2);
        n = p.try_allocate_array(2);
        (void)p.try_deallocate_array(n, 2);
        (void)p.node_size();
        (void)p.capacity_left();
        (void)p.next_capacity();
        (void)p.get_allocator();
        (void)Pool::min_block_size(8, 4);
        use_traits(p);
        use_composable_traits(p);
        Pool moved(static_cast<Pool&&>(p));
        p = static_cast<Pool&&>(moved);
    }

    template <class Col>
    void use_collection(Col& c)
    {
        void* n = c.allocate_node(8);
        c.deallocate_node(n, 8);
        n = c.try_allocate_node(8);
        (void)c.try_deallocate_node(n, 8);
        n = c.allocate_array(2, 8);
        c.deallocate_array(n, 2, 8);
        n = c.try_allocate_array(2, 8);
        (void)c.try_deallocate_array(n, 2, 8);
        c.reserve(8, 64);
        (void)c.max_node_size();
        (void)c.pool_capacity_left(8);
        (void)c.capacity_left();
        (void)c.next_capacity();
        (void)c.get_allocator();
        use_traits(c);
        use_composable_traits(c);
        Col moved(static_cast<Col&&>(c));
        c = static_cast<Col&&>(moved);
    }

    template <class It>
    void use_iteration(It& it)
    {
        void* p = it.allocate(1, 1);
        p       = it.try_allocate(1, 1);
        (void)p;
        it.next_iteration();
        (void)It::max_iterations();
        (void)it.cur_iteration();
        (void)it.capacity_left();
        (void)it.capacity_left(0);
        (void)it.get_allocator();
        use_traits(it);
        use_composable_traits(it);
        It moved(static_cast<It&&>(it));
        it = static_cast<It&&>(moved);
    }

    template <class Arena>
    void use_arena(Arena& a)
    {
        auto b = a.allocate_block();
        (void)a.current_block();
        a.deallocate_block();
        (void)a.owns(b.memory);
        a.shrink_to_fit();
        (void)a.capacity();
        (void)a.cache_size();
        (void)a.size();
        (void)a.next_block_size();
        (void)a.get_allocator();
        Arena moved(static_cast<Arena&&>(a));
        a = static_cast<Arena&&>(moved);
        swap(a, moved);
    }

    void drive_arena(mem::memory_stack<mem::fixed_block_allocator<>>& s1, mem::memory_stack<mem::static_block_allocator>& s2,
                     mem::memory_stack<mem::virtual_block_allocator>& s3, mem::memory_stack<mem::growing_block_allocator<mem::malloc_allocator, 3, 2>>& s4,
                     mem::memory_stack<>& s5, mem::memory_pool<mem::node_pool, mem::static_block_allocator>& p1,
                     mem::memory_pool<mem::array_pool, mem::fixed_block_allocator<>>& p2, mem::memory_pool<mem::small_node_pool, mem::virtual_block_allocator>& p3,
                     mem::memory_pool<>& p4, mem::memory_pool<mem::array_pool>& p5, mem::memory_pool<mem::small_node_pool>& p6,
                     mem::memory_pool_collection<mem::node_pool, mem::log2_buckets, mem::static_block_allocator>& c1,
                     mem::memory_pool_collection<mem::array_pool, mem::identity_buckets, mem::fixed_block_allocator<>>& c2,
                     mem::memory_pool_collection<mem::small_node_pool, mem::log2_buckets>& c3, mem::memory_pool_collection<mem::node_pool, mem::identity_buckets>& c4,
                     mem::memory_pool_collection<mem::array_pool, mem::log2_buckets>& c5, mem::memory_pool_collection<mem::array_pool, mem::identity_buckets>& c6,
                     mem::iteration_allocator<1>& i1, mem::iteration_allocator<2>& i2, mem::iteration_allocator<3>& i3,
                     mem::iteration_allocator<4, mem::static_block_allocator>& i4, mem::iteration_allocator<5, mem::fixed_block_allocator<>>& i5)
    {
        use_stack(s1);
        use_stack(s2);
        use_stack(s3);
        use_stack(s4);
        use_stack(s5);
        use_pool(p1);
        use_pool(p2);
        use_pool(p3);
        use_pool(p4);
        use_pool(p5);
        use_pool(p6);
        use_collection(c1);
        use_collection(c2);
        use_collection(c3);
        use_collection(c4);
        use_collection(c5);
        use_collection(c6);
        use_iteration(i1);
        use_iteration(i2);
        use_iteration(i3);
        use_iteration(i4);
        use_iteration(i5);
    }

    void drive_arenas(mem::memory_arena<mem::growing_block_allocator<>, true>& a1, mem::memory_arena<mem::growing_block_allocator<>, false>& a2,
                      mem::memory_arena<mem::static_block_allocator, true>& a3, mem::memory_arena<mem::virtual_block_allocator, false>& a4,
                      mem::memory_arena<mem::fixed_block_allocator<>, true>& a5)
    {
        use_arena(a1);
        use_arena(a2);
        use_arena(a3);
        use_arena(a4);
        use_arena(a5);
    }

    void drive_misc(mem::static_allocator& st, mem::temporary_allocator& t, mem::virtual_memory_allocator& v, mem::heap_allocator& h,
                    mem::malloc_allocator& m, mem::new_allocator& n, mem::static_block_allocator& sb, mem::virtual_block_allocator& vb,
                    mem::fixed_block_allocator<>& fb, mem::growing_block_allocator<>& gb)
    {
        use_traits(st);
        use_traits(t);
        use_traits(v);
        use_traits(h);
        use_traits(m);
        use_traits(n);
        auto b = sb.allocate_block();
        sb.deallocate_block(b);
        b = vb.allocate_block();
        vb.deallocate_block(b);
        (void)vb.capacity_left();
        b = fb.allocate_block();
        fb.deallocate_block(b);
        (void)fb.next_block_size();
        b = gb.allocate_block();
        gb.deallocate_block(b);
        (void)gb.next_block_size();
        (void)gb.growth_factor();
        mem::static_block_allocator sb2(static_cast<mem::static_block_allocator&&>(sb));
        sb = static_cast<mem::static_block_allocator&&>(sb2);
        swap(sb, sb2);
        mem::virtual_block_allocator vb2(static_cast<mem::virtual_block_allocator&&>(vb));
        vb = static_cast<mem::virtual_block_allocator&&>(vb2);
        swap(vb, vb2);
        void* p = t.allocate(1, 1);
        (void)p;
        t.shrink_to_fit();
        (void)t.is_active();
        mem::temporary_allocator t2, t3(mem::get_temporary_stack());
        mem::temporary_stack_initializer init(128);
    }
} // namespace verif_drv

// constructors (most are member templates, which explicit class instantiation does not instantiate)
namespace verif_drv
{
    void drive_ctors(mem::static_allocator_storage<4096>& storage)
    {
        mem::memory_pool<>                      p1(16, 1024);
        mem::memory_pool<mem::array_pool>       p2(16, 1024);
        mem::memory_pool<mem::small_node_pool>  p3(4, 1024);
        mem::memory_pool<mem::node_pool, mem::static_block_allocator> p4(16, 1024, storage);
        mem::memory_stack<>                                       s1(1024);
        mem::memory_stack<mem::static_block_allocator>            s2(1024, storage);
        mem::memory_stack<mem::fixed_block_allocator<>>           s3(1024);
        mem::memory_stack<mem::virtual_block_allocator>           s4(4096, 4);
        mem::iteration_allocator<1>                               i1(1024);
        mem::iteration_allocator<2>                               i2(1024);
        mem::iteration_allocator<3>                               i3(1024);
        mem::iteration_allocator<4, mem::static_block_allocator>  i4(1024, storage);
        mem::iteration_allocator<5, mem::fixed_block_allocator<>> i5(1024);
        mem::memory_pool_collection<mem::node_pool, mem::identity_buckets>       c1(64, 4096);
        mem::memory_pool_collection<mem::array_pool, mem::log2_buckets>          c2(64, 4096);
        mem::memory_pool_collection<mem::small_node_pool, mem::identity_buckets> c3(16, 4096);
        mem::memory_pool_collection<mem::node_pool, mem::log2_buckets, mem::static_block_allocator> c4(64, 4096, storage);
        mem::memory_arena<mem::growing_block_allocator<>, true>   a1(1024);
        mem::memory_arena<mem::static_block_allocator, false>     a2(1024, storage);
        mem::static_allocator                                     st(storage);
        mem::static_block_allocator                               sb(1024, storage);
        mem::virtual_block_allocator                              vb(4096, 4);
        mem::fixed_block_allocator<>                              fb(1024);
        mem::growing_block_allocator<>                            gb(1024);
        mem::temporary_stack                                      ts(1024);
        mem::temporary_allocator                                  ta(ts);
        (void)p1; (void)p2; (void)p3; (void)p4; (void)s1; (void)s2; (void)s3; (void)s4; (void)i1; (void)i2; (void)i3; (void)i4; (void)i5;
        (void)c1; (void)c2; (void)c3; (void)c4; (void)a1; (void)a2; (void)st; (void)sb; (void)vb; (void)fb; (void)gb; (void)ta;
    }
} // namespace verif_drv
