// wrappers and adapters (C09 R-FWD, C08 fallback/segregator, C05 tracked block allocators)
#include "common.hpp"

#include <memory>

namespace verif_drv
{
    using pool  = mem::memory_pool<>;
    using stack = mem::memory_stack<>;

    struct base_type
    {
        virtual ~base_type();
    };
    struct derived_type : base_type
    {
        derived_type();
        char big[70000];
    };

    void drive_aligned(mem::aligned_allocator<pool>& a, mem::aligned_allocator<min_stateful_allocator>& b,
                       mem::aligned_allocator<mem::heap_allocator>& c, mem::aligned_allocator<full_composable_allocator>& d)
    {
        use_raw(a);
        use_composable(a);
        use_raw(b);
        use_raw(c);
        use_raw(d);
        use_composable(d);
        a.set_min_alignment(8);
        (void)a.min_alignment();
        mem::aligned_allocator<pool> moved(static_cast<mem::aligned_allocator<pool>&&>(a));
        a = static_cast<mem::aligned_allocator<pool>&&>(moved);
    }

    void drive_tracked(mem::tracked_allocator<tracker, pool>& a, mem::tracked_allocator<tracker, min_stateful_allocator>& b,
                       mem::tracked_allocator<tracker, full_composable_allocator>& c,
                       mem::tracked_block_allocator<tracker, mem::growing_block_allocator<>>& d,
                       mem::tracked_block_allocator<tracker, mem::heap_allocator>& e,
                       mem::deeply_tracked_allocator<tracker, pool>& f,
                       mem::deeply_tracked_allocator<tracker, stack>& g)
    {
        use_raw(a);
        use_composable(a);
        use_raw(b);
        use_raw(c);
        use_composable(c);
        auto blk = d.allocate_block();
        d.deallocate_block(blk);
        (void)d.next_block_size();
        blk = e.allocate_block();
        e.deallocate_block(blk);
        use_raw(f);
        use_raw(g);
        mem::tracked_allocator<tracker, pool> moved(static_cast<mem::tracked_allocator<tracker, pool>&&>(a));
        a = static_cast<mem::tracked_allocator<tracker, pool>&&>(moved);
    }

    void drive_fallback(mem::fallback_allocator<pool, mem::heap_allocator>& a, mem::fallback_allocator<pool, stack>& b,
                        mem::fallback_allocator<mem::fallback_allocator<pool, stack>, mem::heap_allocator>& c,
                        mem::fallback_allocator<mem::fallback_allocator<mem::fallback_allocator<pool, stack>, pool>, full_composable_allocator>& d,
                        mem::fallback_allocator<full_composable_allocator, min_stateful_allocator>& e)
    {
        use_raw(a);
        use_raw(b);
        use_composable(b);
        use_raw(c);
        use_raw(d);
        use_composable(d);
        use_raw(e);
    }

    using seg2 = mem::binary_segregator<mem::threshold_segregatable<pool>, mem::heap_allocator>;
    using seg3 = mem::segregator<mem::threshold_segregatable<pool>, mem::threshold_segregatable<stack>, mem::heap_allocator>;
    using seg1 = mem::segregator<mem::threshold_segregatable<pool>>;
    void drive_segregator(seg2& a, seg3& b, seg1& c, mem::null_allocator& n)
    {
        use_traits(a);
        use_traits(b);
        use_traits(c);
        use_traits(n);
        use_composable_traits(n);
    }

    void drive_pmr(mem::memory_resource_adapter<pool>& a, mem::memory_resource_adapter<stack>& b,
                   mem::memory_resource_adapter<mem::heap_allocator>& c, mem::memory_resource_adapter<mem::static_allocator>& d,
                   mem::memory_resource_allocator& e)
    {
        mem::memory_resource& ra = a;
        mem::memory_resource& rb = b;
        mem::memory_resource& rc = c;
        mem::memory_resource& rd = d;
        void*                 p  = ra.allocate(1, 1);
        ra.deallocate(p, 1, 1);
        p = rb.allocate(1, 1);
        rb.deallocate(p, 1, 1);
        p = rc.allocate(1, 1);
        rc.deallocate(p, 1, 1);
        p = rd.allocate(1, 1);
        rd.deallocate(p, 1, 1);
        (void)ra.is_equal(rb);
        // constructing the adapters makes the compiler instantiate their virtual members
        mem::memory_resource_adapter<pool>                  na(static_cast<pool&&>(a.get_allocator()));
        mem::memory_resource_adapter<stack>                 nb(static_cast<stack&&>(b.get_allocator()));
        mem::memory_resource_adapter<mem::heap_allocator>   nc(mem::heap_allocator{});
        mem::memory_resource_adapter<mem::static_allocator> nd(static_cast<mem::static_allocator&&>(d.get_allocator()));
        mem::memory_resource_adapter<min_stateful_allocator> ne(min_stateful_allocator{});
        use_traits(e);
    }

    template <typename T, class A>
    void use_std(mem::std_allocator<T, A>& a, mem::std_allocator<T, A>& b)
    {
        T* p = a.allocate(1);
        a.deallocate(p, 1);
        (void)(a == b);
        (void)(a != b);
        (void)a.max_size();
        (void)a.select_on_container_copy_construction();
    }
    void drive_std(mem::std_allocator<int, pool>& a, mem::std_allocator<int, pool>& a2, mem::std_allocator<long, mem::any_allocator>& b,
                   mem::std_allocator<long, mem::any_allocator>& b2, mem::std_allocator<char, mem::heap_allocator>& c,
                   mem::std_allocator<char, mem::heap_allocator>& c2, mem::std_allocator<int, mem::memory_resource_allocator>& d,
                   mem::std_allocator<int, mem::memory_resource_allocator>& d2, mem::std_allocator<int, min_stateful_allocator>& e,
                   mem::std_allocator<int, min_stateful_allocator>& e2)
    {
        use_std(a, a2);
        use_std(b, b2);
        use_std(c, c2);
        use_std(d, d2);
        use_std(e, e2);
    }

    void drive_traits(min_stateful_allocator& a, full_composable_allocator& b, stateless_allocator& c, pool& p, stack& s,
                      mem::static_allocator& st, mem::iteration_allocator<3>& it, mem::temporary_allocator& t,
                      mem::memory_pool_collection<mem::node_pool, mem::log2_buckets>& col, mem::heap_allocator& h,
                      mem::virtual_memory_allocator& v, std::allocator<char>& sa)
    {
        use_traits(a);
        use_traits(b);
        use_composable_traits(b);
        use_traits(c);
        use_traits(p);
        use_composable_traits(p);
        use_traits(s);
        use_composable_traits(s);
        use_traits(st);
        use_traits(it);
        use_composable_traits(it);
        use_traits(t);
        use_traits(col);
        use_composable_traits(col);
        use_traits(h);
        use_traits(v);
        use_traits(sa);
    }

    void drive_smart_ptr(pool& p, stack& s, min_stateful_allocator& m, mem::heap_allocator h)
    {
        auto u1 = mem::allocate_unique<thrower>(p, 1);
        auto u2 = mem::allocate_unique<nothrower>(s);
        auto u3 = mem::allocate_unique<thrower[]>(p, std::size_t(3));
        auto u4 = mem::allocate_unique<nothrower[]>(m, std::size_t(3));
        auto u5 = mem::allocate_unique<thrower>(mem::any_allocator{}, p, 2);
        auto u6 = mem::allocate_unique<thrower[]>(mem::any_allocator{}, s, std::size_t(2));
        auto u7 = mem::allocate_unique<derived_type>(h);
        mem::unique_base_ptr<base_type, mem::heap_allocator> ub(static_cast<decltype(u7)&&>(u7));
        auto sp = mem::allocate_shared<thrower>(p, 3);
        // deallocator-only polymorphic form
        mem::allocator_deallocator<derived_type, mem::heap_allocator>       dd(mem::make_allocator_reference(h));
        mem::allocator_polymorphic_deallocator<base_type, mem::heap_allocator> pd(dd);
        pd(nullptr);
        (void)u1;
        (void)u2;
        (void)u3;
        (void)u4;
        (void)u5;
        (void)u6;
        (void)sp;
    }
} // namespace verif_drv
