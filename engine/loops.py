"""Counted-loop summaries on the CFG, independent of how the loop is spelled.

A loop is found from its terminator (`for`, `while`, `do`): the blocks between the continue edge and the test.  For a loop whose
exit test compares a counter local (changed by exactly +1 or -1 once per cycle) with a loop-invariant bound, the number of times
the test is evaluated is a linear term of the counter's value at loop entry and the bound:

    the T-th evaluation of the test is the one that fails;  counter there = I + s*(ca*T + cb*(T-1)) = B
        s   the step (+1 / -1)
        ca  1 if the counter changes before the test within a cycle (do-while), cb = 1 - ca  (for / while)
    =>  T = s*(B - I) + cb                  (exact when s*(B - I) >= ca: `needs`, which a path condition has to establish,
                                             otherwise a `!=` loop wraps around and a `<` loop does not run the formula's count)

An event that every cycle passes exactly once is executed  T times when it sits before the test (do-while body)  and  T-1 times when
it sits after it (for / while body).  Up-counting, down-counting, for, while and do-while forms of the same loop give the same
linear count.
"""
from . import sym, linear
from .facts import subterms

LOOP_STMTS = ('ForStmt', 'WhileStmt', 'DoStmt', 'CXXForRangeStmt')


class Loop:
    __slots__ = ('fn', 'head', 'kind', 'body', 'cond', 'cont', 'exit')

    def __repr__(self):
        return '<%s at block %s body=%s>' % (self.kind, self.head, sorted(self.body))


def find_loops(f):
    """loops of f (one per loop statement), innermost and outermost alike"""
    out = []
    for bid, b in f.blocks.items():
        t = b.get('term')
        if not t or t.get('cls') not in LOOP_STMTS or len(b.get('succ', [])) != 2:
            continue
        cont, ex = b['succ'][0], b['succ'][1]
        if cont is None:
            continue
        # blocks reachable from the continue edge without passing the test ...
        seen = set()
        st = [cont]
        while st:
            x = st.pop()
            if x is None or x in seen or x == bid:
                continue
            seen.add(x)
            st.extend(f.blocks[x]['succ'])
        # ... that can come back to the test
        body = {x for x in seen if _reaches(f, x, bid, seen)}
        lp = Loop()
        lp.fn, lp.head, lp.kind, lp.body, lp.cond, lp.cont, lp.exit = f, bid, t['cls'], body, t.get('cond'), cont, ex
        out.append(lp)
    return out


def _reaches(f, a, target, within):
    seen = set()
    st = [a]
    while st:
        x = st.pop()
        if x == target:
            return True
        if x is None or x in seen or x not in within:
            continue
        seen.add(x)
        st.extend(f.blocks[x]['succ'])
    return False


def once_per_cycle(lp, block):
    """does every cycle (continue edge -> test) pass `block` exactly once?"""
    f = lp.fn
    if block not in lp.body:
        return False
    # every path from the continue edge to the test passes the block
    seen = set()
    st = [lp.cont]
    while st:
        x = st.pop()
        if x == lp.head:
            return False
        if x is None or x in seen or x == block or x not in lp.body:
            continue
        seen.add(x)
        st.extend(f.blocks[x]['succ'])
    # and the block is not on an inner cycle
    seen = set()
    st = [s for s in f.blocks[block]['succ']]
    while st:
        x = st.pop()
        if x == block:
            return False
        if x is None or x in seen or x == lp.head or x not in lp.body:
            continue
        seen.add(x)
        st.extend(f.blocks[x]['succ'])
    return True


def _counter_step(e, did):
    """+1 / -1 if event e changes local `did` by one, 0 if it does not touch it, None if it changes it some other way"""
    if e['ev'] == 'incdec':
        l = sym.strip_casts(e['lhs'])
        if isinstance(l, dict) and l.get('k') == 'local' and l.get('did') == did:
            return 1 if e['op'] == '++' else -1
        return 0
    if e['ev'] == 'assign':
        l = sym.strip_casts(e['lhs'])
        if not (isinstance(l, dict) and l.get('k') == 'local' and l.get('did') == did):
            return 0
        key = sym.canon(l)
        if e['op'] in ('+=', '-='):
            r = linear.lin(e['rhs'])
            if r == {'': 1}:
                return 1 if e['op'] == '+=' else -1
            return None
        if e['op'] == '=':
            d = linear.sub(linear.lin(e['rhs']), {key: 1})
            if d == {'': 1}:
                return 1
            if d == {'': -1}:
                return -1
        return None
    # increments buried in a larger expression (x++ as an argument) are not summarised
    for root in (e.get('e'), e.get('rhs')):
        if isinstance(root, dict):
            for s_ in subterms(root):
                if isinstance(s_, dict) and s_.get('k') == 'un' and s_.get('op') in ('++', '--', 'post++', 'post--', '++post', '--post'):
                    o = sym.strip_casts(s_.get('e'))
                    if isinstance(o, dict) and o.get('k') == 'local' and o.get('did') == did:
                        return None
    return 0


def _locals_in(t):
    return {s_.get('did') for s_ in subterms(t) if isinstance(s_, dict) and s_.get('k') == 'local'}


def _assigned_in(lp, did):
    n = []
    for e in lp.fn.events():
        if e.block in lp.body or e.block == lp.head:
            st = _counter_step(e, did)
            if st != 0:
                n.append((e, st))
    return n


class Counted:
    """summary of a counted loop: test evaluations T = s*(B - I) + cb as terms to be substituted at loop entry"""
    __slots__ = ('loop', 'did', 'step', 'ca', 'cb', 'bound', 'strict', 'ctr_term', 'why', 'in_test')


def counted(lp):
    """Counted summary of loop lp, or a string saying why it is not a counted loop"""
    f = lp.fn
    cond = sym.strip_casts(lp.cond) if isinstance(lp.cond, dict) else None
    if cond is None:
        return 'the loop has no exit condition'
    neg = False
    while isinstance(cond, dict) and cond.get('k') == 'un' and cond.get('op') == '!':
        neg = not neg
        cond = sym.strip_casts(cond['e'])
    if isinstance(cond, dict) and cond.get('k') == 'local' and not neg:
        cond = {'k': 'bin', 'op': '!=', 'l': cond, 'r': {'k': 'lit', 'v': 0}}
    if not isinstance(cond, dict) or cond.get('k') != 'bin' or cond.get('op') not in ('!=', '<', '>', '<=', '>=', '=='):
        return 'loop condition `%s` is not a comparison of a counter with a bound' % sym.canon(lp.cond)[:80]
    op = cond['op']
    if neg:
        op = {'<': '>=', '<=': '>', '>': '<=', '>=': '<', '==': '!=', '!=': '=='}[op]
    if op == '==':
        return 'loop continues on equality'
    l, r = sym.strip_casts(cond['l']), sym.strip_casts(cond['r'])
    # the step written inside the test: `while (--n != 0)` compares the stepped value, `while (n-- != 0)` the value before the step
    in_test = None
    for nm in ('l', 'r'):
        side = l if nm == 'l' else r
        if isinstance(side, dict) and side.get('k') == 'un' and side.get('op') in ('++', '--', '++post', '--post', 'post++', 'post--'):
            o = sym.strip_casts(side.get('e') or {})
            if isinstance(o, dict) and o.get('k') == 'local':
                in_test = 'post' if 'post' in side['op'] else 'pre'
                if nm == 'l':
                    l = o
                else:
                    r = o
    cands = []
    for side, other, flip in ((l, r, False), (r, l, True)):
        if isinstance(side, dict) and side.get('k') == 'local':
            ch = _assigned_in(lp, side['did'])
            if ch:
                cands.append((side, other, flip, ch))
    if len(cands) != 1:
        return 'the loop condition does not compare exactly one local that the loop changes with a bound'
    ctr, bound, flip, changes = cands[0]
    if len(changes) != 1 or changes[0][1] is None:
        return 'the loop counter is not changed by exactly one unit step per cycle'
    e, step = changes[0]
    if in_test is None and (e.block == lp.head or not once_per_cycle(lp, e.block)):
        return 'the counter step is not executed exactly once in every cycle'
    if in_test is not None and e.block != lp.head:
        return 'the counter is stepped in the test and in the body'
    # continue-condition as `counter OP bound`
    if flip:
        op = {'<': '>', '>': '<', '<=': '>=', '>=': '<=', '!=': '!='}[op]
    # direction must agree with the step
    if op in ('<', '<=') and step != 1 or op in ('>', '>=') and step != -1:
        return 'the counter moves away from the bound'
    # loop invariance of the bound: no local in it is assigned in the loop
    for d in _locals_in(bound):
        if _assigned_in(lp, d):
            return 'the bound changes inside the loop'
    c = Counted()
    c.loop, c.did, c.step, c.bound, c.ctr_term = lp, ctr['did'], step, bound, ctr
    c.ca = 1 if lp.kind == 'DoStmt' else 0
    if in_test == 'pre':
        c.ca = 1            # the T-th comparison sees the counter after T steps
    elif in_test == 'post':
        c.ca = 0            # ... after T - 1 steps
    c.cb = 1 - c.ca
    c.in_test = in_test
    # `<=` / `>=` run one more cycle than `<` / `>` / `!=`: fold into the bound as B + s
    c.strict = op in ('<', '>', '!=')
    c.why = '%s loop, counter %s by one per cycle while (counter %s bound)' % (
        {'ForStmt': 'for', 'WhileStmt': 'while', 'DoStmt': 'do-while', 'CXXForRangeStmt': 'range-for'}[lp.kind], 'up' if step == 1 else 'down', op)
    return c


def evaluations(c, init_lin, bound_lin):
    """(T, needs): linear form of the number of test evaluations, and the linear form that must be >= 0 for T to be exact"""
    B = dict(bound_lin)
    if not c.strict:
        B = linear._add(B, {'': c.step}, 1)
    d = linear.sub(B, init_lin)
    if c.step == -1:
        d = linear._scale(d, -1)
    T = linear._add(d, {'': c.cb} if c.cb else {}, 1)
    needs = linear.sub(d, {'': c.ca} if c.ca else {})
    return T, needs


def executions(c, block, T):
    """linear form of how often an event in `block` (once per cycle) runs, given T test evaluations"""
    if c.loop.kind == 'DoStmt':
        return dict(T)                              # do-while: the body precedes every test
    return linear.sub(T, {'': 1})                   # for / while: the body follows every test but the last


def entry_state(f, lp, db=None, roles=None):
    """per path trace reaching the loop: (values of locals at loop entry, [(condition term, taken)] decided before it)"""
    from . import fwd
    out = []
    region = set(lp.body) | {lp.head}
    for p in fwd.trace(f, roles=roles if roles is not None else {}, db=db):
        conds = []
        hit = None
        for st in p:
            if st['kind'] == 'br':
                # the loop's own test is not a precondition
                conds.append((st['cond'], st['taken'], st.get('stmt')))
            elif st['kind'] == 'ev' and st['e'].block in region:
                hit = st
                break
        if hit is not None:
            pre = [(c_, tk) for c_, tk, stmt in conds]
            # drop the test evaluation that let the path into a for / while body
            if lp.kind != 'DoStmt' and conds and conds[-1][2] in LOOP_STMTS and hit['e'].block != lp.head:
                pre = pre[:-1]
            out.append((hit['vals'], pre))
    return out


def subst_vals(f, t, vals, roles=None):
    env = sym.Env(f, roles or {}, None, fields={})
    env.vals = dict(vals)
    return env.subst(t)


def established(needs, pre, roles=None, nonneg=()):
    """is `needs >= 0` implied by one of the path conditions `pre` (or trivially true)?  sizes and counts are unsigned, so
    `x != 0` gives x - 1 >= 0; `nonneg` lists linear forms of unsigned values the program computes (a count held in a size_t is
    not negative, whatever it was computed from)"""
    if all(v >= 0 for v in needs.values()):
        return True
    if any(needs == nn for nn in nonneg):
        return True
    for ct, tk in pre:
        for a, t_ in _atoms(ct, tk):
            a0 = sym.strip_casts(a)
            cmpd = linear.compare(a0, t_, roles)
            if cmpd is None:
                # truthiness of an unsigned quantity
                x = linear.lin(a0, roles)
                if t_ and linear.sub(needs, linear.sub(x, {'': 1})) == {}:
                    return True
                continue
            d, op = cmpd
            # d op 0
            if op == '!=':
                # X != 0 with X an unsigned quantity:  X >= 1
                if isinstance(a0, dict) and a0.get('k') == 'bin':
                    for x_, z_ in ((a0['l'], a0['r']), (a0['r'], a0['l'])):
                        if linear.lin(z_, roles) == {} and linear.sub(needs, linear.sub(linear.lin(x_, roles), {'': 1})) == {}:
                            return True
                continue
            if op == '==':
                continue
            # d < 0  => -d - 1 >= 0 ;  d <= 0 => -d >= 0
            have = linear._scale(d, -1)
            if op == '<':
                have = linear.sub(have, {'': 1})
            rest = linear.sub(needs, have)        # needs = have + rest ; fine when rest >= 0
            if all(v >= 0 for v in rest.values()) and set(rest) <= {''}:
                return True
    return False


def _atoms(ct, tk):
    from . import fwd
    return fwd.split_condition(ct, tk)


def expand_accessors(db, t, depth=0):
    """replace calls of trivial const accessors (one `return <expr>;`, e.g. begin() / end() / size()) by the expression they return,
    with the receiver and the arguments substituted: a loop over [begin(), end()) is a loop over [ptr_, ptr_ + size_)"""
    from .inline import _walk_terms
    if depth > 4 or db is None:
        return t

    def rw(d):
        if d.get('k') != 'call':
            return d
        callee = db.fns.get(d.get('key'))
        if callee is None or callee.pattern or len(callee.blocks) > 3:
            return d
        evs = [e for b in callee.blocks.values() for e in b['events']]
        rets = [e for e in evs if e['ev'] == 'return' and e.get('e') is not None]
        if len(rets) != 1 or any(e['ev'] not in ('return', 'expr') for e in evs):
            return d
        if any(e['ev'] == 'expr' and isinstance(e.get('e'), dict) and e['e'].get('k') in ('call', 'construct', 'new') and
               not (db.fns.get(e['e'].get('key')) is not None and db.fns[e['e']['key']].rec.get('constm')) for e in evs):
            return d
        args = d.get('args', [])
        recv = d.get('recv')
        pd = {p.get('did'): i for i, p in enumerate(callee.params)}

        def sub(x):
            if x.get('k') == 'param' and x.get('did') in pd and pd[x['did']] < len(args):
                return args[pd[x['did']]]
            if recv is not None:
                if x.get('k') == 'this':
                    return {'k': 'un', 'op': '&', 'e': recv, '__recv__': True}
                if x.get('k') == 'member' and isinstance(x.get('base'), dict) and x['base'].get('__recv__'):
                    return dict(x, base=x['base']['e'])
                if x.get('k') == 'un' and x.get('op') == '*' and isinstance(x.get('e'), dict) and x['e'].get('__recv__'):
                    return x['e']['e']
            return x
        body = _walk_terms(rets[0]['e'], sub)
        return expand_accessors(db, body, depth + 1)
    return _walk_terms(t, rw)
