"""Forwarding analysis: which calls of a function reach a wrapped allocator, with which symbolic arguments,
under which path conditions.  Used by R-FWD (C09, C08, C05, C02), R-PAIR (C15) and others."""
import re
from . import sym
from .facts import cls_template, top_term, tstr, subterms, strip_ns

TRAITS = ('allocator_traits', 'composable_allocator_traits')

# roles of the parameters of the RawAllocator / BlockAllocator / pmr concept functions, by (short) name
CONCEPT = {
    'allocate_node': ['size', 'alignment'],
    'allocate_array': ['count', 'size', 'alignment'],
    'deallocate_node': ['ptr', 'size', 'alignment'],
    'deallocate_array': ['ptr', 'count', 'size', 'alignment'],
    'try_allocate_node': ['size', 'alignment'],
    'try_allocate_array': ['count', 'size', 'alignment'],
    'try_deallocate_node': ['ptr', 'size', 'alignment'],
    'try_deallocate_array': ['ptr', 'count', 'size', 'alignment'],
    'max_node_size': [], 'max_array_size': [], 'max_alignment': [],
    # type-erased interface
    'allocate_impl': ['count', 'size', 'alignment'],
    'deallocate_impl': ['ptr', 'count', 'size', 'alignment'],
    'try_allocate_impl': ['count', 'size', 'alignment'],
    'try_deallocate_impl': ['ptr', 'count', 'size', 'alignment'],
    # block allocators
    'allocate_block': [], 'deallocate_block': ['block'], 'next_block_size': [],
    # std::pmr / foonathan memory_resource
    'allocate': ['size', 'alignment'], 'deallocate': ['ptr', 'size', 'alignment'],
    'do_allocate': ['size', 'alignment'], 'do_deallocate': ['ptr', 'size', 'alignment'],
}
ACQUIRE_OF = {
    'deallocate_node': 'allocate_node', 'deallocate_array': 'allocate_array',
    'try_deallocate_node': 'try_allocate_node', 'try_deallocate_array': 'try_allocate_array',
    'deallocate_impl': 'allocate_impl', 'try_deallocate_impl': 'try_allocate_impl',
    'deallocate_block': 'allocate_block', 'deallocate': 'allocate', 'do_deallocate': 'do_allocate',
    'std_deallocate': 'std_allocate',
}


def fn_roles(fn, short=None):
    """param index -> role for a function that itself implements a concept function"""
    short = short or fn.short
    roles = CONCEPT.get(short)
    if roles is None:
        return {}
    n = len(fn.params)
    # leading tag / state parameters (traits functions take the allocator first; impl helpers take a tag)
    lead = n - len(roles)
    if lead < 0:
        return {}
    out = {lead + i: r for i, r in enumerate(roles)}
    if lead == 1:
        out[0] = 'state'        # traits functions: the allocator object comes first (named by position, not by its identifier)
    return out


class FwdCall:
    __slots__ = ('kind', 'target', 'args', 'term', 'event', 'via')

    def __init__(self, kind, target, args, term, event, via):
        self.kind = kind          # concept function name reached
        self.target = target      # canonical string of the object it is called on
        self.args = args          # role -> canonical string
        self.term = term
        self.event = event
        self.via = via            # 'traits' | 'member' | 'helper'

    def sig(self, drop_ptr=True, as_acquire=False):
        k = ACQUIRE_OF.get(self.kind, self.kind) if as_acquire else self.kind
        items = tuple(sorted((r, v) for r, v in self.args.items() if not (drop_ptr and r in ('ptr', 'block'))))
        return (k, self.target, items)

    def __repr__(self):
        return '%s@%s(%s)' % (self.kind, self.target, ', '.join('%s=%s' % kv for kv in sorted(self.args.items())))


def classify_forward(fn, t):
    """(kind, target_term, {role: arg term}, via) if call term t reaches another allocator, else None"""
    if not isinstance(t, dict) or t.get('k') != 'call':
        return None
    short = t.get('short')
    if short not in CONCEPT:
        return None
    roles = CONCEPT[short]
    args = t.get('args', [])
    ct = cls_template(t.get('cls', ''))
    if ct in TRAITS:
        if len(args) != len(roles) + 1:
            return None
        return short, args[0], dict(zip(roles, args[1:])), 'traits'
    if short in ('allocate', 'deallocate') and t.get('cls', '').startswith('std::') and 'memory_resource' not in t.get('cls', ''):
        # std::allocator-like (the std_concept branch of the traits)
        r2 = ['size'] if short == 'allocate' else ['ptr', 'size']
        if len(args) in (len(r2), len(r2) + 1):
            return 'std_' + short, t.get('recv') or {'k': 'this'}, dict(zip(r2, args)), 'member'
        return None
    if 'recv' in t or t.get('cls'):
        # member call: forwarding only if it is not a call to a helper of the same class on this
        if t.get('cls') == fn.cls and (t.get('recv') is None or sym.strip_casts(t['recv']).get('k') == 'this') \
                and not t.get('virtual'):
            return None
        if len(args) != len(roles):
            return None
        target = t.get('recv') or {'k': 'this'}
        # a qualified call on this (Base::allocate_block()) targets the base sub-object
        if sym.strip_casts(target).get('k') == 'this' and t.get('cls') != fn.cls:
            target = {'k': 'global', 'name': 'base:' + strip_ns(t.get('cls', ''))}
        return short, target, dict(zip(roles, args)), 'member'
    # free helper: detail::try_allocate_node(tag, alloc, ...)
    if len(args) == len(roles) + 2:
        return short, args[1], dict(zip(roles, args[2:])), 'helper'
    return None


class CallRec(tuple):
    """(canonical call string, term, event, index in fwd order); `.sub` is the call term with the path's values substituted"""


def _callrec(sub, t, e, nf, roles):
    r = CallRec((sym.canon(sub, roles), t, e, nf))
    r.sub = sub
    return r


def _norm_target(c):
    """the allocator behind a storage's locking proxy is the storage's allocator: `s.lock().operator*()` names `s.get_allocator()`"""
    m = re.match(r'^(.*)\.lock\(\)\.operator(\*|->)\(\)$', c) if isinstance(c, str) else None
    if m:
        return m.group(1) + '.get_allocator()'
    # ... also when lock() is seen through: lock_allocator(<allocator>, <mutex>) wraps exactly that allocator
    m = re.match(r'^(?:[\w:]*::)?lock_allocator\((.*),[^,()]*\)\.operator(\*|->)\(\)$', c) if isinstance(c, str) else None
    return m.group(1) if m else c


class PathSummary:
    __slots__ = ('conds', 'fwd', 'calls', 'end', 'ret', 'path', 'throws', 'throw_at_fwd', 'throw_at_call', 'unwinds', 'writes', 'ret_term', 'fwd_ids', 'cond_terms', 'fields', 'ret_truth')

    def __init__(self):
        self.conds = []     # (canonical cond, taken)
        self.fwd = []       # FwdCall in execution order
        self.calls = []     # (canonical call string, term, event, index in fwd order) of all other calls
        self.end = None
        self.ret = None
        self.path = None
        self.throws = None
        self.throw_at_fwd = None   # number of forwarding calls executed before the (first) throw
        self.throw_at_call = None
        self.unwinds = []          # ('unwind', did, name, type, dtor key) items after the throw
        self.writes = []           # (canonical lhs, canonical rhs, event, n_fwd_before, n_calls_before)

    def cond_key(self):
        return tuple(sym.norm_cond(c, t) for c, t in self.conds)


def const_truth(t):
    """truth value of a branch condition that is a compile-time constant, else None"""
    t = sym.strip_casts(t)
    if not isinstance(t, dict):
        return None
    if t.get('k') == 'lit' and t.get('null'):
        return False
    if t.get('k') == 'lit' and 'v' in t:
        return bool(t['v'])
    if t.get('k') == 'bin' and t.get('op') in ('==', '!='):
        # two literals (a result variable that is still the null / zero it was initialised with)
        a, b = sym.strip_casts(t['l']), sym.strip_casts(t['r'])
        def cv(x):
            if x.get('k') == 'lit':
                return 0 if x.get('null') else x.get('v')
            if x.get('k') == 'global' and x.get('const') and 'v' in x:
                return x['v']       # a configuration constant: `debug_fence_size == 0u` is as decided as `!debug_fence_size`
            return None
        if isinstance(a, dict) and isinstance(b, dict):
            va, vb = cv(a), cv(b)
            if isinstance(va, (int, bool)) and isinstance(vb, (int, bool)):
                return (int(va) == int(vb)) == (t['op'] == '==')
    if t.get('k') == 'global' and t.get('const') and 'v' in t:
        return bool(t['v'])
    if t.get('k') == 'tparam' and 'v' in t:
        return bool(t['v'])
    if t.get('k') == 'typetrait' and t.get('v') is not None:
        return bool(t['v'])
    if t.get('k') == 'un' and t['op'] == '!':
        v = const_truth(t['e'])
        return None if v is None else (not v)
    return None


def summarize(fn, exceptional=False, extra_forward=None, roles=None, inline=None, limit=3000, db=None,
              inline_pred=None, max_depth=6, no_forward=False, init_vals=None):
    """path summaries of fn.
    extra_forward(fn, term) may classify additional calls as forwarding.
    With db and inline_pred(fn, callee_fn, term): calls to helper functions are inlined (their paths are
    spliced into the caller's, parameters bound to the caller's argument terms)."""
    roles = fn_roles(fn) if roles is None else roles
    out = []
    budget = [limit]

    def run_fn(f, init_vals, depth, state, cont):
        """enumerate paths of f starting from symbolic state; call cont(state, ret_term) at each normal end.
        state = (conds, fwd, calls, fwd_ids, callvals)"""
        paths = sym.enum_paths(f, limit=limit, exceptional=exceptional and depth == 0)
        for p in paths:
            conds, fwds, calls, fwd_ids, callvals, meta = state
            st = (list(conds), list(fwds), list(calls), dict(fwd_ids), dict(callvals), {k: (list(v) if isinstance(v, list) else dict(v) if isinstance(v, dict) else v) for k, v in meta.items()})
            step_path(f, p, 0, None, init_vals, depth, st, cont)

    def make_env(f, init_vals, st):
        fwd_ids, callvals = st[3], st[4]

        def inl(t):
            key = (f.key, t.get('id'))
            if key in fwd_ids:
                return {'k': 'fwdres', 'n': fwd_ids[key]}
            if key in callvals:
                return callvals[key]
            if inline is not None:
                return inline(t)
            return None
        env = sym.Env(f, roles, inl, fields=st[5].setdefault('fields', {}))
        env.db = db
        env.vals.update(init_vals)
        return env

    def step_path(f, p, idx, env, init_vals, depth, st, cont):
        conds, fwds, calls, fwd_ids, callvals, meta = st
        if depth == 0 and 'path' not in meta:
            meta['path'] = p
        if env is None:
            env = make_env(f, init_vals, st)
        ret_term = None
        while idx < len(p):
            it = p[idx]
            idx += 1
            if it[0] == 'ev':
                e = it[1]
                t = top_term(e)
                if t is not None and t.get('k') == 'call':
                    callee = db.fns.get(t.get('key')) if db is not None else None
                    do_inline = (callee is not None and inline_pred is not None
                                 and inline_pred(f, callee, t) and callee.key != f.key)
                    if do_inline and depth >= max_depth:
                        # never drop the effects of a helper silently
                        raise sym.PathLimit('%s: helper inlining deeper than %d levels at %s' % (fn.display, max_depth, callee.display))
                    c = None if (do_inline or no_forward) else (classify_forward(f, t) or (extra_forward(f, t) if extra_forward else None))
                    if c:
                        kind, target, args, via = c
                        rc = lambda x: sym.canon(resolve_ternaries(env.subst(x), conds, roles), roles)
                        fc = FwdCall(kind, _norm_target(rc(target)), {r: rc(a) for r, a in args.items()}, t, e, via)
                        fwd_ids[(f.key, t['id'])] = len(fwds)
                        fwds.append(fc)
                    else:
                        if do_inline:
                            # bind parameters
                            binds = {}
                            if callee.kind == 'lambda' and callee.rec.get('parent_fn') == f.key:
                                binds.update(env.vals)      # a local closure called in its own function sees the values of what it captured
                            args = t.get('args', [])
                            for prm, a in zip(callee.params, args):
                                binds[prm['did']] = env.subst(a)
                            if 'recv' in t:
                                binds['__this__'] = env.subst_path(t['recv'])
                            saved_env = env

                            def after(st2, rterm, f=f, p=p, idx=idx, saved_env=saved_env, t=t, depth=depth, cont=cont, init_vals=init_vals):
                                st2[4][(f.key, t['id'])] = rterm if rterm is not None else {'k': 'lit', 'v': 0, 'void': True}
                                env2 = make_env(f, {}, st2)
                                env2.vals = dict(saved_env.vals)
                                step_path(f, p, idx, env2, init_vals, depth, st2, cont)
                            run_fn(callee, binds, depth + 1, (conds, fwds, calls, fwd_ids, callvals, meta), after)
                            return
                        calls.append(_callrec(resolve_ternaries(env.subst(t), conds, roles), t, e, len(fwds), roles))
                elif t is not None and t.get('k') in ('construct', 'new', 'delete'):
                    calls.append(_callrec(resolve_ternaries(env.subst(t), conds, roles), t, e, len(fwds), roles))
                if e['ev'] == 'return' and e.get('e') is not None:
                    ret_term = env.subst(e['e'])
                if e['ev'] == 'init' and depth == 0 and not e.get('implicit'):
                    tgt = ('this.' + e['field']) if e.get('field') else ('base:' + strip_ns(e.get('base', 'delegating')))
                    meta.setdefault('writes', []).append((tgt, env.c(e['e']), e, len(fwds), len(calls)))
                if e['ev'] in ('assign', 'incdec'):        # also inside inlined helpers: the location is named in the caller's terms
                    rhs = env.c(e['rhs']) if 'rhs' in e else e['op']
                    meta.setdefault('writes', []).append((sym.canon(sym.strip_casts(env.subst_lvalue(e['lhs'])), roles) if sym.strip_casts(e['lhs']).get('k') == 'member' else env.lvalue_key(e['lhs']) if sym.strip_casts(e['lhs']).get('k') not in ('local', 'param') else env.c(e['lhs']), rhs, e, len(fwds), len(calls)))
                env.step(it)
            elif it[0] == 'br':
                cond, taken, assume = it[1], it[2], it[3]
                ct = const_truth(env.subst(cond))
                if ct is not None:
                    if ct != taken:
                        return
                    continue
                if assume:
                    continue
                if len(it) > 4 and it[4] in ('ForStmt', 'WhileStmt', 'DoStmt', 'CXXForRangeStmt'):
                    continue    # loop trip conditions do not select the forwarding call
                # (A || B) not taken means neither holds, (A && B) taken means both hold: record the atoms, so that a guard keeps
                # its meaning when it is written as one expression or returned by a helper
                resolved = resolve_ternaries(env.subst(cond), conds, roles)
                ct2 = const_truth(resolved)
                if ct2 is not None:
                    # decided by an earlier branch of this very path (p = c ? nullptr : f(); if (!p) ...)
                    if ct2 != taken:
                        return
                    continue
                for ct, tk in split_condition(resolved, taken):
                    conds.append((sym.canon(ct, roles), tk))
                    meta.setdefault('cond_terms', []).append((ct, tk))
            elif it[0] == 'throw':
                if depth != 0:
                    return
                if 'throw' not in meta:
                    meta['throw'] = it
                    meta['throw_at_fwd'] = len(fwds)
                    meta['throw_at_call'] = len(calls)
            elif it[0] == 'unwind':
                meta.setdefault('unwinds', []).append(it)
            elif it[0] == 'end':
                if it[1] == 'return':
                    cont((conds, fwds, calls, fwd_ids, callvals, meta), ret_term)
                elif depth == 0:
                    finish((conds, fwds, calls, fwd_ids, callvals, meta), None, it[1], p, meta.get('throw'))
                return

    def finish(st, ret_term, end, p, throws):
        conds, fwds, calls, fwd_ids, callvals, meta = st
        seen = {}
        for c, tk in conds:
            if c in seen and seen[c] != tk:
                return
            seen[c] = tk
        budget[0] -= 1
        if budget[0] < 0:
            raise sym.PathLimit('%s: more than %d summarised paths' % (fn.display, limit))
        s = PathSummary()
        # drop duplicate conditions
        cs = []
        for c in conds:
            # !(x) taken T  ==  x taken F
            while c[0].startswith('!(') and c[0].endswith(')') and _balanced(c[0][2:-1]):
                c = (c[0][2:-1], not c[1])
            if c not in cs:
                cs.append(c)
        seen = {}
        for c, tk in cs:
            if c in seen and seen[c] != tk:
                return
            seen[c] = tk
        s.conds = cs
        s.fwd = fwds
        s.calls = calls
        s.end = end
        # `return c ? a : b`: the CFG already branched on c, so the path knows which arm it returned
        if ret_term is not None:
            ret_term = resolve_ternaries(ret_term, cs, roles)
        s.ret = sym.canon(ret_term, roles) if ret_term is not None else None
        s.ret_term = ret_term
        # a returned boolean expression whose atoms the path has decided has a known truth value on this path
        s.ret_truth = truth_under(ret_term, cs, roles) if ret_term is not None else None
        s.cond_terms = meta.get('cond_terms', [])
        s.fields = meta.get('fields', {})
        s.fwd_ids = fwd_ids
        s.path = p if p is not None else meta.get('path')
        s.throws = throws
        s.throw_at_fwd = meta.get('throw_at_fwd')
        s.throw_at_call = meta.get('throw_at_call')
        s.unwinds = meta.get('unwinds', [])
        s.writes = meta.get('writes', [])
        out.append(s)

    def top_cont(st, rterm):
        finish(st, rterm, 'return', None, st[5].get('throw'))

    run_fn(fn, dict(init_vals or {}), 0, ([], [], [], {}, {}, {}), top_cont)
    return out


def resolve_ternaries(t, conds, roles, depth=0):
    """replace `c ? a : b` sub-terms whose condition the path has already decided (the CFG branches on c before it evaluates the
    arm) by the arm that was taken"""
    if not isinstance(t, dict) or depth > 8:
        return t
    if t.get('k') == 'cond':
        v = truth_under(t['c'], conds, roles)
        if v is not None:
            return resolve_ternaries(t['t'] if v else t['f'], conds, roles, depth + 1)
    if t.get('k') == 'bin' and t.get('op') in ('&&', '||'):
        # an operand the path has decided: `true && x` is x, `false && x` is false (the CFG branched on it before evaluating x)
        a, b = truth_under(t['l'], conds, roles), truth_under(t['r'], conds, roles)
        absorbing = (t['op'] == '||')
        if a is not None and a == absorbing or b is not None and b == absorbing:
            return {'k': 'lit', 'v': bool(absorbing), 'bool': True, 't': 'bool'}
        if a is not None and b is not None:
            return {'k': 'lit', 'v': bool(a and b if t['op'] == '&&' else a or b), 'bool': True, 't': 'bool'}
        if a is not None:
            return resolve_ternaries(t['r'], conds, roles, depth + 1)
        if b is not None:
            return resolve_ternaries(t['l'], conds, roles, depth + 1)
    out = {}
    changed = False
    for kk, vv in t.items():
        if isinstance(vv, dict):
            nv = resolve_ternaries(vv, conds, roles, depth + 1)
            changed = changed or nv is not vv
            out[kk] = nv
        elif isinstance(vv, list):
            nl = [resolve_ternaries(x, conds, roles, depth + 1) if isinstance(x, dict) else x for x in vv]
            changed = changed or any(a is not b for a, b in zip(nl, vv))
            out[kk] = nl
        else:
            out[kk] = vv
    return out if changed else t


def truth_under(t, conds, roles, depth=0):
    """three-valued truth of a boolean term given the (canonical condition, truth) pairs a path has decided: True, False or None"""
    if not isinstance(t, dict) or depth > 10:
        return None
    ct = const_truth(t)
    if ct is not None:
        return ct
    t0 = sym.strip_casts(t)
    if not isinstance(t0, dict):
        return None
    if t0.get('k') == 'un' and t0.get('op') == '!':
        v = truth_under(t0['e'], conds, roles, depth + 1)
        return None if v is None else (not v)
    if t0.get('k') == 'bin' and t0.get('op') in ('&&', '||'):
        a = truth_under(t0['l'], conds, roles, depth + 1)
        b = truth_under(t0['r'], conds, roles, depth + 1)
        if t0['op'] == '&&':
            if a is False or b is False:
                return False
            return True if (a is True and b is True) else None
        if a is True or b is True:
            return True
        return False if (a is False and b is False) else None
    if t0.get('k') == 'cond':
        c = truth_under(t0['c'], conds, roles, depth + 1)
        if c is None:
            return None
        return truth_under(t0['t'] if c else t0['f'], conds, roles, depth + 1)
    atoms = split_condition(t0, True)
    if len(atoms) != 1:
        return None
    a, tk = atoms[0]
    # the conditions were recorded with their own sub-terms already simplified (a constant `fence ? 2 : 1` inside an argument)
    key = sym.canon(resolve_ternaries(a, conds, roles, depth + 1) if depth < 6 else a, roles)
    while key.startswith('!(') and key.endswith(')') and _balanced(key[2:-1]):
        key, tk = key[2:-1], not tk
    for c, v in conds:
        if c == key:
            return v == tk
    return None


_COMPLEMENT = {'<': '>=', '<=': '>', '>': '<=', '>=': '<', '==': '!=', '!=': '=='}


def split_condition(t, taken):
    """[(atom term, truth)] implied by `t` evaluating to `taken`: conjunctions that hold and disjunctions that do not are split,
    negations are pushed through; anything else is one atom"""
    t0 = sym.strip_casts(t)
    if isinstance(t0, dict) and t0.get('k') == 'un' and t0.get('op') == '!':
        inner = sym.strip_casts(t0['e'])
        if isinstance(inner, dict) and inner.get('k') == 'bin' and inner.get('op') in _COMPLEMENT:
            # the negation of a comparison is the complementary comparison (as the canonical form always had it)
            comp = dict(inner, op=_COMPLEMENT[inner['op']])
            return split_condition(comp, taken)
        return split_condition(t0['e'], not taken)
    if isinstance(t0, dict) and t0.get('k') == 'bin' and ((t0['op'] == '&&' and taken) or (t0['op'] == '||' and not taken)):
        return split_condition(t0['l'], taken) + split_condition(t0['r'], taken)
    # one spelling per fact: ordering comparisons are recorded as strict `<` with a truth value, (in)equalities as `==`
    #   a <= b  (T)  ==  b < a (F)        a >= b (T)  ==  a < b (F)        a != b (T)  ==  a == b (F)
    if isinstance(t0, dict) and t0.get('k') == 'bin' and t0.get('op') in ('<=', '>=', '!=', '>'):
        op = t0['op']
        if op == '<=':
            return [(dict(t0, op='<', l=t0['r'], r=t0['l'], lptr=t0.get('rptr'), rptr=t0.get('lptr')), not taken)]
        if op == '>=':
            return [(dict(t0, op='<'), not taken)]
        if op == '>':
            return [(dict(t0, op='<', l=t0['r'], r=t0['l'], lptr=t0.get('rptr'), rptr=t0.get('lptr')), taken)]
        return [(dict(t0, op='=='), not taken)]
    return [(t, taken)]


def trace(fn, roles=None, db=None, exceptional=False, limit=3000, init_vals=None):
    """plain path traces (no inlining): per path a list of steps
         {'kind': 'ev', 'e': event, 't': top term with locals replaced by their values, 'vals': values of locals before the event}
         {'kind': 'br', 'cond': substituted condition, 'c': canonical string, 'taken': bool, 'assume': bool, 'stmt': statement class}
         {'kind': 'end', 'end': 'return'|..., 'ret': substituted returned term or None}
    Rules use the values, never the names, of locals."""
    roles = fn_roles(fn) if roles is None else roles
    out = []
    for p in sym.enum_paths(fn, limit=limit, exceptional=exceptional):
        env = sym.Env(fn, roles, None, fields={})
        env.db = db
        env.vals.update(init_vals or {})
        steps = []
        ret = None
        dead = False
        for it in p:
            if it[0] == 'ev':
                e = it[1]
                t = top_term(e)
                steps.append({'kind': 'ev', 'e': e, 't': env.subst(t) if t is not None else None, 'vals': dict(env.vals)})
                if e['ev'] == 'return' and e.get('e') is not None:
                    ret = env.subst(e['e'])
                env.step(it)
            elif it[0] == 'br':
                cond = env.subst(it[1])
                ct = const_truth(cond)
                if ct is not None:
                    if ct != it[2]:
                        dead = True
                        break
                    continue
                steps.append({'kind': 'br', 'cond': cond, 'c': sym.canon(cond, roles), 'taken': it[2], 'assume': it[3],
                              'stmt': it[4] if len(it) > 4 else None, 'raw': it[1]})
            elif it[0] == 'end':
                steps.append({'kind': 'end', 'end': it[1], 'ret': ret})
            elif it[0] == 'throw':
                steps.append({'kind': 'throw', 'it': it})
        if not dead:
            out.append(steps)
    return out


def _balanced(x):
    d = 0
    for ch in x:
        if ch == '(':
            d += 1
        elif ch == ')':
            d -= 1
            if d < 0:
                return False
    return d == 0


def describe(summaries):
    lines = []
    for s in summaries:
        lines.append('  if [%s] -> %s ; end=%s ret=%s' % (' & '.join(s.cond_key()), s.fwd, s.end, s.ret))
    return '\n'.join(lines)


# --------------------------------------------------------------------------- arithmetic idioms (enumerated forms)

def _raw(s):
    return {'k': 'raw', 's': s}


def _bin(op, l, r):
    return {'k': 'bin', 'op': op, 'l': l, 'r': r}


def ceil_div_forms(n, d):
    """canonical strings of the accepted spellings of ceil(n / d); n, d are canonical strings"""
    N, D = _raw(n), _raw(d)
    one = {'k': 'lit', 'v': 1}
    zero = {'k': 'lit', 'v': 0}
    forms = [
        _bin('+', _bin('/', N, D), _bin('!=', _bin('%', N, D), zero)),
        _bin('+', _bin('/', N, D), {'k': 'cond', 'c': _bin('%', N, D), 't': one, 'f': zero}),
        _bin('+', _bin('/', N, D), {'k': 'cond', 'c': _bin('!=', _bin('%', N, D), zero), 't': one, 'f': zero}),
        _bin('/', _bin('-', _bin('+', N, D), one), D),
        _bin('/', _bin('+', N, _bin('-', D, one)), D),
    ]
    q = _bin('/', N, D)
    forms += [{'k': 'cond', 'c': _bin('!=', _bin('%', N, D), zero), 't': _bin('+', q, one), 'f': q},
              {'k': 'cond', 'c': _bin('%', N, D), 't': _bin('+', q, one), 'f': q},
              {'k': 'cond', 'c': _bin('==', _bin('%', N, D), zero), 't': q, 'f': _bin('+', q, one)}]
    return {sym.canon(f) for f in forms}


def is_ceil_div(count, n, d, conds):
    """is the canonical term `count` ceil(n / d) on a path that has decided `conds`?  Either one of the closed forms, or the
    quotient on the path where the remainder is zero / the quotient plus one on the path where it is not (a ternary or an if in a
    helper that the path has already branched on)"""
    if count in ceil_div_forms(n, d):
        return True
    N, D = _raw(n), _raw(d)
    zero, one = {'k': 'lit', 'v': 0}, {'k': 'lit', 'v': 1}
    q = sym.canon(_bin('/', N, D))
    q1 = sym.canon(_bin('+', _bin('/', N, D), one))
    rem = sym.canon(_bin('%', N, D))
    remz = sym.canon(_bin('==', _bin('%', N, D), zero))
    exact = None
    for c, tk in conds:
        if c == remz:
            exact = tk
        elif c == rem:
            exact = not tk
    if exact is True and count == q:
        return True
    if exact is False and count == q1:
        return True
    return False


def implies_ge(conds, arg, param):
    """do the path conditions establish arg >= param?  (the `if (m > a) a = m;` idiom)"""
    if arg == param:
        return True
    for c, taken in conds:
        if taken and c in ('(%s < %s)' % (param, arg), '(%s <= %s)' % (param, arg)):
            return True
        if not taken and c in ('(%s < %s)' % (arg, param), '(%s <= %s)' % (arg, param)):
            return True
    return False
