"""Run context for one property check: obligations, violations, known findings, evidence, exit codes.

Exit codes: 0 pass, 1 violation (prints `VIOLATION property=<id> replay=<path>`), 2 analysis broken
(prints `ANALYSIS-BROKEN property=<id> ...`, never a VIOLATION line).
"""
import json
import os
import sys
import time

VERIF = os.path.dirname(os.path.dirname(os.path.abspath(__file__)))
# development only (parallel mutant runs against scratch copies): where out/ and evidence/ are written; registered commands never set it
OUT_ROOT = os.environ.get('VERIF_OUT_ROOT', VERIF)


class Broken(Exception):
    """analysis cannot decide (anchor vanished, floor not reached, fixture silent, inconclusive term)"""


class Run:
    def __init__(self, pid, tier, level='other'):
        self.pid = pid
        self.tier = tier
        self.level = level
        self.seed = int(os.environ.get('VERIF_SEED', '0') or 0)
        self.t0 = time.time()
        self.obligations = []     # dicts: rule, instance, where, verdict ('ok'|'violation'|'known'), detail
        self.broken = []          # strings
        self.notes = []
        self.rules = {}           # rule name -> text
        self.floors = {}          # rule name -> minimum number of instances
        self.counters = {}
        self.assumptions = []
        self.trusted = ['clang 14 front end, template instantiation and CFG builder',
                        'libstdc++ 12 headers', 'noexcept declarations as written']
        self.explanation = ''
        self.known = load_known(pid)
        self.samples_extra = []

    # ---- bookkeeping
    def rule(self, name, text, floor=1):
        self.rules[name] = text
        self.floors[name] = floor

    def count(self, key, n=1):
        self.counters[key] = self.counters.get(key, 0) + n

    def ok(self, rule, instance, where='', detail=''):
        self.obligations.append({'rule': rule, 'instance': instance, 'where': where, 'verdict': 'ok', 'detail': detail})

    def violation(self, rule, instance, where, detail, site=None, extra=None):
        """site: stable identification used to match known findings: dict(function=..., role=...) - no line numbers"""
        ob = {'rule': rule, 'instance': instance, 'where': where, 'verdict': 'violation', 'detail': detail,
              'site': site or {'function': instance}}
        if extra:
            ob['extra'] = extra
        kf = match_known(self.known, rule, ob['site'])
        if kf is not None:
            ob['verdict'] = 'known'
            ob['known'] = kf.get('what', '')
        self.obligations.append(ob)

    def broke(self, msg):
        self.broken.append(msg)

    def note(self, msg):
        self.notes.append(msg)

    def log(self, msg):
        print('[%s] %s' % (self.pid, msg))
        sys.stdout.flush()

    # ---- finish
    def finish(self):
        # floors
        per_rule = {}
        for ob in self.obligations:
            per_rule[ob['rule']] = per_rule.get(ob['rule'], 0) + 1
        for r, fl in self.floors.items():
            if per_rule.get(r, 0) < fl:
                self.broken.append('rule %s matched %d instance(s), floor is %d (a rule that matches nothing must not pass)'
                                   % (r, per_rule.get(r, 0), fl))
        viol = [o for o in self.obligations if o['verdict'] == 'violation']
        known = [o for o in self.obligations if o['verdict'] == 'known']
        okc = [o for o in self.obligations if o['verdict'] == 'ok']
        wall = time.time() - self.t0
        outdir = os.path.join(OUT_ROOT, 'out', self.pid)
        os.makedirs(outdir, exist_ok=True)
        for f in os.listdir(outdir):
            if f.startswith('violation-'):
                os.unlink(os.path.join(outdir, f))

        # de-duplicate known findings by site for printing
        printed = set()
        for o in known:
            key = json.dumps(o['site'], sort_keys=True) + o['rule']
            if key in printed:
                continue
            printed.add(key)
            print('KNOWN-FINDING: property=%s %s [%s at %s] %s' % (self.pid, o['known'], o['rule'], o['instance'], o['where']))

        samples = []
        seen_rules = {}
        for o in self.obligations:
            n = seen_rules.get(o['rule'], 0)
            if n < 3:
                seen_rules[o['rule']] = n + 1
                samples.append({k: o[k] for k in ('rule', 'instance', 'where', 'verdict', 'detail') if k in o})
        samples = samples[:40] + self.samples_extra[:10]
        distinct = len({(o['rule'], o['instance'], o.get('detail', '')) for o in self.obligations})
        cov = {
            'explanation': self.explanation or ' ; '.join('%s: %s' % kv for kv in self.rules.items()),
            'obligations': len(self.obligations),
            'discharged': len(okc),
            'known_findings': len(printed),
            'evaluations': max(1, len(self.obligations)),
            'distinct_nontrivial': distinct,
            'rule': 'one obligation per (configuration, instantiated function or class, rule instance); all are '
                    'generated from facts extracted from /repo on this run; distinct = distinct (rule, instance, detail) triples',
            'samples': samples or [{'note': 'no obligations'}],
            'per_rule': per_rule,
            'rules': self.rules,
            'checker_cmd': 'bin/check %s --tier %s' % (self.pid, self.tier),
            'trusted_base': self.trusted,
            'notes': self.notes[:50],
        }
        cov.update(self.counters)
        ev = {'property_id': self.pid, 'tier': self.tier, 'seed': self.seed, 'level': self.level,
              'coverage': cov, 'assumptions': self.assumptions, 'wall_s': round(wall, 2),
              'violations': len(viol)}
        os.makedirs(os.path.join(OUT_ROOT, 'evidence'), exist_ok=True)
        with open(os.path.join(OUT_ROOT, 'evidence', self.pid + '.json'), 'w') as f:
            json.dump(ev, f, indent=1, sort_keys=True)
            f.write('\n')

        print('[%s] tier=%s obligations=%d ok=%d known=%d violations=%d broken=%d wall=%.1fs'
              % (self.pid, self.tier, len(self.obligations), len(okc), len(known), len(viol), len(self.broken), wall))
        for r in sorted(per_rule):
            print('[%s]   %-28s %4d instance(s)' % (self.pid, r, per_rule[r]))
        if self.broken and not viol:
            for b in self.broken[:20]:
                print('ANALYSIS-BROKEN property=%s %s' % (self.pid, b))
            return 2
        if viol:
            # a refuted obligation comes from a rule that found its anchor and ran; it stays a violation when some OTHER rule
            # could not be evaluated (listed as incomplete, for diagnosis)
            for b in self.broken[:20]:
                print('[%s] ANALYSIS-INCOMPLETE %s' % (self.pid, b))
            groups = {}
            for o in viol:
                key = o['rule'] + '|' + json.dumps(o['site'], sort_keys=True)
                groups.setdefault(key, []).append(o)
            for k, (key, obs) in enumerate(sorted(groups.items()), 1):
                o = obs[0]
                path = os.path.join(outdir, 'violation-%d.json' % k)
                rep = dict(o)
                rep['property'] = self.pid
                rep['instances'] = [{'instance': x['instance'], 'where': x['where'], 'detail': x['detail']} for x in obs[:40]]
                rep['n_instances'] = len(obs)
                rep['explain'] = 'bin/check %s --explain %s' % (self.pid, path)
                with open(path, 'w') as f:
                    json.dump(rep, f, indent=1, sort_keys=True)
                print('[%s] %s: %s at %s: %s%s' % (self.pid, o['rule'], o['instance'], o['where'], o['detail'],
                                                   (' (+%d more instantiation(s)/configuration(s) of the same site)' % (len(obs) - 1)) if len(obs) > 1 else ''))
                print('VIOLATION property=%s replay=%s' % (self.pid, path))
            return 1
        return 0


def load_known(pid):
    p = os.path.join(VERIF, 'known_findings.json')
    if not os.path.exists(p):
        return []
    with open(p) as f:
        data = json.load(f)
    return [k for k in data.get('known', []) if k.get('property') == pid]


def match_known(known, rule, site):
    for k in known:
        if k.get('rule') != rule:
            continue
        ks = k.get('site', {})
        if all(site.get(a) == b for a, b in ks.items()):
            return k
    return None
