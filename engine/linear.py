"""Linear normal form of integer / pointer terms: {atom canonical string: coefficient} with the constant under ''.
Named constants stay atoms (they are not folded to their numeric value), so the same obligation is checked
for fence 0 and fence 8 builds.  No solver: only equality of normal forms and sign of all coefficients."""
from . import sym


def lin(t, roles=None):
    """term -> dict atom->coeff (ints). Non-linear sub-terms become atoms."""
    t = sym.strip_casts(t)
    if not isinstance(t, dict):
        return {'?': 1}
    k = t.get('k')
    if k == 'lit' and isinstance(t.get('v'), int) and not t.get('bool'):
        return {'': t['v']} if t['v'] else {}
    if k == 'cast':
        return lin(t['e'], roles)
    if k == 'bin' and t['op'] in ('+', '-'):
        a, b = lin(t['l'], roles), lin(t['r'], roles)
        return _add(a, b, 1 if t['op'] == '+' else -1)
    if k == 'bin' and t['op'] == '*':
        a, b = lin(t['l'], roles), lin(t['r'], roles)
        if set(a) <= {''}:
            return _scale(b, a.get('', 0))
        if set(b) <= {''}:
            return _scale(a, b.get('', 0))
        return {sym.canon(t, roles): 1}
    if k == 'cond':
        # (c ? x : 0) is kept as an atom
        return {sym.canon(t, roles): 1}
    if k == 'raw':
        return {t['s']: 1}
    return {sym.canon(t, roles): 1}


def _add(a, b, sign):
    out = dict(a)
    for k, v in b.items():
        out[k] = out.get(k, 0) + sign * v
        if out[k] == 0:
            del out[k]
    return out


def _scale(a, c):
    return {k: v * c for k, v in a.items() if v * c != 0}


def sub(a, b):
    return _add(a, b, -1)


def fmt(l):
    if not l:
        return '0'
    parts = []
    for k in sorted(l):
        v = l[k]
        name = k if k else '1'
        parts.append(('%+d*%s' % (v, name)) if v not in (1, -1) or not k else ('+%s' % name if v == 1 else '-%s' % name))
    return ' '.join(parts)


def compare(t, taken, roles=None):
    """branch condition -> (linear form L, op) meaning `L op 0` holds on the taken edge; op in '<', '<=', '==', '!='.
    None if the condition is not a comparison."""
    t = sym.strip_casts(t)
    neg = False
    while isinstance(t, dict) and t.get('k') == 'un' and t['op'] == '!':
        neg = not neg
        t = sym.strip_casts(t['e'])
    if not isinstance(t, dict) or t.get('k') != 'bin' or t['op'] not in ('<', '<=', '>', '>=', '==', '!='):
        return None
    op = t['op']
    l, r = lin(t['l'], roles), lin(t['r'], roles)
    holds = taken != neg
    if not holds:
        op = {'<': '>=', '<=': '>', '>': '<=', '>=': '<', '==': '!=', '!=': '=='}[op]
    d = sub(l, r)          # l - r  op 0
    if op in ('>', '>='):
        d = _scale(d, -1)  # r - l  (<|<=) 0
        op = '<' if op == '>' else '<='
    return d, op
