"""Fact loader and generic CFG / term helpers for the /verif rule engine.

Facts are produced by tool/memfacts (one JSON object per line).  Nothing in this
module is a rule: it provides functions, blocks, events, dominators, path
enumeration with exceptional edges, and a term printer / normaliser.
"""
import json
import re
from collections import defaultdict

NS = 'foonathan::memory::'


def strip_ns(s):
    return s.replace(NS, '') if isinstance(s, str) else s


# --------------------------------------------------------------------------- terms

def tstr(t, depth=0):
    """human readable rendering of a term (used in reports and for canonical keys)"""
    if t is None:
        return '<none>'
    if not isinstance(t, dict):
        return str(t)
    k = t.get('k')
    if k == 'param':
        return t['name'] or ('$%d' % t['i'])
    if k == 'local':
        return t['name']
    if k == 'this':
        return 'this'
    if k == 'member':
        b = t.get('base')
        if b and b.get('k') == 'this':
            return t['name']
        bs = tstr(b)
        return '%s.%s' % (bs, t['name'])
    if k == 'lit':
        if t.get('null'):
            return 'nullptr'
        if t.get('bool'):
            return 'true' if t['v'] else 'false'
        return str(t.get('v', '<float>'))
    if k == 'str':
        return json.dumps(t['v'][:30])
    if k in ('sizeof', 'alignof'):
        return '%s(%s)' % (k, strip_ns(t['t']))
    if k == 'tparam':
        return t['name']
    if k == 'global':
        return strip_ns(t['name'])
    if k == 'fnref':
        return '&' + strip_ns(t['name'])
    if k == 'un':
        op = t['op']
        if op.endswith('post'):
            return '%s%s' % (tstr(t['e']), op[:-4])
        return '%s%s' % (op, tstr(t['e']))
    if k == 'bin':
        if t['op'] == '[]':
            return '%s[%s]' % (tstr(t['l']), tstr(t['r']))
        return '(%s %s %s)' % (tstr(t['l']), t['op'], tstr(t['r']))
    if k == 'cond':
        return '(%s ? %s : %s)' % (tstr(t['c']), tstr(t['t']), tstr(t['f']))
    if k == 'call':
        args = ', '.join(tstr(a) for a in t.get('args', []))
        if t.get('indirect'):
            return '(*%s)(%s)' % (tstr(t.get('fn')), args)
        name = t.get('short', '?')
        if 'recv' in t:
            r = tstr(t['recv'])
            if r == 'this':
                return '%s(%s)' % (name, args)
            return '%s.%s(%s)' % (r, name, args)
        cls = t.get('cls')
        if cls:
            return '%s::%s(%s)' % (short_cls(cls), name, args)
        return '%s(%s)' % (name, args)
    if k == 'construct':
        return '%s{%s}' % (short_cls(t['type']), ', '.join(tstr(a) for a in t.get('args', [])))
    if k == 'new':
        pl = ', '.join(tstr(a) for a in t.get('placement', []))
        return 'new(%s) %s%s' % (pl, short_cls(t['type']), (' ' + tstr(t['init'])) if t.get('init') else '')
    if k == 'delete':
        return 'delete %s' % tstr(t['e'])
    if k == 'throw':
        return 'throw %s' % (tstr(t['e']) if 'e' in t else '')
    if k == 'cast':
        if t.get('implicit'):
            return '(%s)%s' % (t['to'], tstr(t['e']))
        return 'cast<%s>(%s)' % (strip_ns(t['to']), tstr(t['e']))
    if k == 'lambda':
        return '<lambda>'
    if k == 'initlist':
        return '{%s}' % ', '.join(tstr(a) for a in t['elts'])
    if k == 'dep':
        b = ('%s.' % tstr(t['base'])) if t.get('base') else ''
        return '%s%s%s' % (t.get('qual', ''), b, t['name'])
    if k == 'noexcept_expr':
        return 'noexcept(%s)' % tstr(t['e'])
    if k == 'typetrait':
        return 'trait:%s' % t.get('v')
    if k == 'other':
        return '%s(%s)' % (t['cls'], ', '.join(tstr(c) for c in t['ch']))
    return '<%s>' % k


def short_cls(s):
    """drop namespaces and template arguments for display"""
    s = strip_ns(s)
    return s


def base_name(qual):
    """qualified name with template arguments -> unqualified template name of last component
    e.g. foonathan::memory::memory_pool<a,b>::allocate_node -> allocate_node"""
    depth = 0
    last = 0
    i = 0
    while i < len(qual):
        c = qual[i]
        if c == '<':
            depth += 1
        elif c == '>':
            depth -= 1
        elif c == ':' and depth == 0 and i + 1 < len(qual) and qual[i + 1] == ':':
            last = i + 2
            i += 1
        i += 1
    return qual[last:]


def split_qual(qual):
    """split a::b<c::d>::e into ['a','b<c::d>','e'] (template-aware)"""
    parts = []
    depth = 0
    cur = ''
    i = 0
    while i < len(qual):
        c = qual[i]
        if c in '<(':
            depth += 1
        elif c in '>)':
            depth -= 1
        if c == ':' and depth == 0 and i + 1 < len(qual) and qual[i + 1] == ':':
            parts.append(cur)
            cur = ''
            i += 2
            continue
        cur += c
        i += 1
    parts.append(cur)
    return parts


def tmpl_name(component):
    """'memory_pool<a, b>' -> 'memory_pool'"""
    i = component.find('<')
    return component if i < 0 else component[:i]


def cls_template(cls):
    """foonathan::memory::memory_pool<...> -> memory_pool ; detail::x<...> -> detail::x"""
    if not cls:
        return ''
    if cls.startswith('const '):
        cls = cls[len('const '):]       # the class of `const T` is T
    parts = split_qual(strip_ns(cls))
    return '::'.join(tmpl_name(p) for p in parts)


def subterms(t):
    """pre-order generator over all dict sub-terms"""
    if isinstance(t, dict):
        yield t
        for v in t.values():
            if isinstance(v, dict):
                yield from subterms(v)
            elif isinstance(v, list):
                for x in v:
                    if isinstance(x, dict):
                        yield from subterms(x)


def calls_in(t):
    for s in subterms(t):
        if s.get('k') in ('call', 'construct', 'new', 'delete', 'throw'):
            yield s


# --------------------------------------------------------------------------- functions

class Event(dict):
    """an event is a dict with at least 'ev'; .block and .idx are filled by Fn"""
    __slots__ = ('block', 'idx', 'fn')

    def term(self):
        return self.get('e')

    @property
    def loc(self):
        if 'loc' in self:
            return self['loc']
        e = self.get('e')
        if isinstance(e, dict):
            return e.get('loc', '')
        return ''


class Fn:
    def __init__(self, rec, config, tu):
        self.rec = rec
        self.config = config
        self.tu = tu
        self.name = rec['fn']
        self.key = rec['key']
        self.short = rec['short']
        self.kind = rec['kind']
        self.cls = rec.get('cls', '')
        self.loc = rec['loc']
        self.noexcept = rec['noexcept']
        self.params = rec.get('params', [])
        self.pattern = rec.get('pattern', False)
        self.blocks = {}
        self.entry = rec.get('entry')
        self.exit = rec.get('exit')
        for b in rec.get('blocks', []):
            evs = []
            for i, e in enumerate(b['events']):
                ev = Event(e)
                ev.block = b['id']
                ev.idx = i
                ev.fn = self
                evs.append(ev)
            b['events'] = evs
            succ = []
            for s in b['succ']:
                if isinstance(s, int):
                    succ.append(s)
                elif isinstance(s, dict):
                    succ.append(s['unreachable'])   # keep edge: pruning is the engine's job
                else:
                    succ.append(None)
            b['succ'] = succ
            self.blocks[b['id']] = b
        self._dom = None
        self._pdom = None
        self._preds = None

    # ---- naming helpers
    @property
    def cls_t(self):
        return cls_template(self.cls)

    @property
    def display(self):
        return strip_ns(self.key)

    def __repr__(self):
        return '<Fn %s [%s]>' % (self.display, self.config)

    # ---- iteration
    def events(self):
        """all events in block-id descending order (clang numbers entry highest) - not a path order"""
        for bid in sorted(self.blocks, reverse=True):
            for e in self.blocks[bid]['events']:
                yield e

    def all_calls(self):
        """every call/construct/new term evaluated as its own CFG element, exactly once, with its event"""
        seen = set()
        for e in self.events():
            for key in ('e', 'rhs', 'lhs'):
                pass
            t = top_term(e)
            if t is not None and t.get('k') in ('call', 'construct', 'new', 'delete', 'throw'):
                if t.get('id') not in seen:
                    seen.add(t.get('id'))
                    yield e, t

    def preds(self):
        if self._preds is None:
            p = defaultdict(list)
            for bid, b in self.blocks.items():
                for s in b['succ']:
                    if s is not None:
                        p[s].append(bid)
            self._preds = p
        return self._preds

    def reachable(self):
        seen = set()
        st = [self.entry]
        while st:
            b = st.pop()
            if b in seen or b is None:
                continue
            seen.add(b)
            st.extend(self.blocks[b]['succ'])
        return seen

    def dominators(self):
        """block -> set of dominating blocks (iterative; functions are small)"""
        if self._dom is not None:
            return self._dom
        reach = self.reachable()
        dom = {b: set(reach) for b in reach}
        dom[self.entry] = {self.entry}
        preds = self.preds()
        changed = True
        order = sorted(reach, reverse=True)
        while changed:
            changed = False
            for b in order:
                if b == self.entry:
                    continue
                ps = [p for p in preds[b] if p in reach]
                if not ps:
                    continue
                new = set.intersection(*(dom[p] for p in ps)) | {b}
                if new != dom[b]:
                    dom[b] = new
                    changed = True
        self._dom = dom
        return dom

    def ev_dominates(self, a, b):
        """event a dominates event b (same function)"""
        if a.block == b.block:
            return a.idx < b.idx
        dom = self.dominators()
        return b.block in dom and a.block in dom[b.block]


def top_term(e):
    """the term an 'expr' event evaluates; for others None"""
    if e.get('ev') == 'expr':
        return e.get('e')
    return None


# --------------------------------------------------------------------------- database

class DB:
    """all facts of one configuration"""

    def __init__(self, config):
        self.config = config
        self.fns = {}          # key -> Fn (first definition wins; identical across TUs)
        self.by_short = defaultdict(list)
        self.by_cls_t = defaultdict(list)
        self.classes = {}      # qualified name -> class rec
        self.tus = []
        self.n_records = 0

    def load(self, path, tu):
        self.tus.append(tu)
        with open(path) as f:
            for line in f:
                r = json.loads(line)
                self.n_records += 1
                if r['rec'] == 'fn':
                    if r['key'] in self.fns:
                        continue
                    fn = Fn(r, self.config, tu)
                    self.fns[fn.key] = fn
                    self.by_short[fn.short].append(fn)
                    self.by_cls_t[fn.cls_t].append(fn)
                elif r['rec'] == 'class':
                    self.classes.setdefault(r['name'], r)

    def find(self, cls_t=None, short=None, kind=None, pred=None):
        """functions by class template name (namespace-stripped, e.g. 'detail::fixed_memory_stack'),
        short name, kind"""
        if cls_t is not None:
            cand = self.by_cls_t.get(cls_t, [])
        elif short is not None:
            cand = self.by_short.get(short, [])
        else:
            cand = self.fns.values()
        out = []
        for f in cand:
            if short is not None and f.short != short:
                continue
            if kind is not None and f.kind != kind:
                continue
            if f.pattern:
                continue
            if pred and not pred(f):
                continue
            out.append(f)
        return out

    def classes_t(self, cls_t):
        return [c for n, c in self.classes.items() if cls_template(n) == cls_t and not c.get('pattern')]


def rename_names(db, suffix):
    """append `suffix` to the name of every parameter and local variable (declarations and uses) of library functions"""
    def walk(x):
        if isinstance(x, dict):
            if x.get('k') in ('param', 'local') and isinstance(x.get('name'), str) and x['name']:
                x['name'] = x['name'] + suffix
            for kk, v in list(x.items()):
                if kk == 'vars' and isinstance(v, list):
                    for d in v:
                        if isinstance(d, dict) and isinstance(d.get('name'), str) and d['name']:
                            d['name'] = d['name'] + suffix
                if kk != 'fn':
                    walk(v)
        elif isinstance(x, list):
            for y in x:
                walk(y)
    for f in db.fns.values():
        if '/verif/' in f.loc:
            continue        # drivers and fixtures are not the analysed program
        for prm in f.params:
            if isinstance(prm.get('name'), str) and prm['name']:
                prm['name'] = prm['name'] + suffix
        for b in f.blocks.values():
            for e in b['events']:
                walk(e)
            if b.get('term'):
                walk(b['term'])


# --------------------------------------------------------------------------- pretty printer (debugging aid)

def dump_fn(fn, out=None):
    import sys
    out = out or sys.stdout
    out.write('%s  [%s] kind=%s noexcept=%s %s\n' % (fn.display, fn.config, fn.kind, fn.noexcept, fn.loc))
    for bid in sorted(fn.blocks, reverse=True):
        b = fn.blocks[bid]
        lab = ''
        if b.get('label'):
            lab = ' label=%s' % json.dumps(b['label'])
        out.write('  B%d -> %s%s%s\n' % (bid, b['succ'], lab, ' NORETURN' if b.get('noreturn') else ''))
        for e in b['events']:
            out.write('      %s\n' % estr(e))
        if b.get('term'):
            t = b['term']
            out.write('      T: %s %s %s\n' % (t['cls'], t.get('op', ''), tstr(t.get('cond')) if 'cond' in t else ''))


def estr(e):
    ev = e['ev']
    if ev == 'expr':
        t = e['e']
        extra = ''
        if t.get('k') in ('call', 'construct'):
            extra = '   [noexcept=%s]' % t.get('noexcept')
        return tstr(t) + extra
    if ev == 'decl':
        return 'decl ' + '; '.join('%s %s = %s' % (strip_ns(v['t']), v['name'], tstr(v.get('init'))) for v in e['vars'])
    if ev == 'assign':
        return '%s %s %s' % (tstr(e['lhs']), e['op'], tstr(e['rhs']))
    if ev == 'incdec':
        return '%s%s' % (e['op'], tstr(e['lhs']))
    if ev == 'return':
        return 'return %s' % tstr(e.get('e'))
    if ev == 'init':
        return 'init %s = %s' % (e.get('field') or e.get('base') or 'delegating', tstr(e.get('e')))
    if ev == 'dtor':
        return 'dtor(%s) %s %s' % (e['what'], e.get('name', ''), strip_ns(e.get('t', '')))
    return json.dumps(e)[:200]
