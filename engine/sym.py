"""Path enumeration (normal and exceptional) and symbolic evaluation of terms along a path.

A path is a list of items:
   ('ev', event)                       an event executed
   ('br', cond_term, taken, assume)    a branch; assume=True when the other edge only leads to an assertion failure
   ('throw', event, term)              the event raised (exceptional paths only); what follows are the unwinding
                                       destructor items ('unwind', did, name, type, key) and possibly handler code
   ('end', kind)                       kind in 'return' | 'propagate' | 'noreturn'
"""
from .facts import subterms, top_term, tstr, strip_ns

ASSERT_FAIL = ('handle_failed_assert',)
NORETURN_CALLS = ('handle_failed_assert', 'abort', 'terminate', '__assert_fail', 'exit', 'quick_exit')


def _is_assert_fail_block(fn, bid, depth=0):
    """block (possibly through a chain of single successors) that calls handle_failed_assert / abort"""
    b = fn.blocks.get(bid)
    if b is None:
        return False
    for e in b['events']:
        t = top_term(e)
        if t is not None and t.get('k') == 'call' and t.get('short') in NORETURN_CALLS:
            return True
    return False


# standard-library operations that are not declared noexcept but cannot throw for the argument types used here (reason)
NOTHROW_STD = ('std::move_iterator<',        # wraps a raw pointer: construction, base(), ++, * cannot throw
               'std::make_move_iterator', 'std::initializer_list<')


def may_throw(t):
    """a call / construct / new / throw term may raise"""
    k = t.get('k')
    if k == 'construct' and str(t.get('type', '')).startswith(NOTHROW_STD) and '*>' in str(t.get('type', '')):
        return False
    if k == 'call' and str(t.get('cls', '')).startswith(NOTHROW_STD) and '*>' in str(t.get('cls', '')):
        return False
    if k == 'call' and str(t.get('callee', '')).startswith('std::make_move_iterator'):
        return False
    if k == 'throw':
        return True
    if k == 'call':
        if t.get('short') in NORETURN_CALLS:
            return False
        return t.get('noexcept') != 'yes'
    if k == 'construct':
        return t.get('noexcept') != 'yes'
    if k == 'new':
        return t.get('ctor_noexcept') != 'yes' or (t.get('opnew_noexcept') not in ('yes', None) and not t.get('reserved_placement'))
    return False


class PathLimit(Exception):
    pass


def enum_paths(fn, limit=4000, exceptional=False, max_visits=2, throw_filter=None):
    """yield paths (lists of items).  Loops: a block is entered at most max_visits times on a path."""
    dtor_vars = {}
    for e in fn.events():
        if e['ev'] == 'dtor' and e.get('what') == 'auto' and not e.get('trivial'):
            dtor_vars[e['did']] = e
    handlers = {}   # try id -> list of handler block ids
    for bid, b in fn.blocks.items():
        lab = b.get('label')
        if lab and lab.get('k') == 'catch':
            handlers.setdefault(lab.get('try'), []).append(bid)
    count = [0]
    out = []

    def unwind_items(live, try_id, decl_try):
        """destructors of live vars that were declared inside try `try_id` (or all when try_id is None), reverse order"""
        items = []
        for did in reversed(live):
            if try_id is not None and decl_try.get(did) != try_id:
                # declared outside this try: survives into the handler
                continue
            d = dtor_vars[did]
            items.append(('unwind', did, d.get('name'), d.get('t'), d.get('key')))
        return items

    def walk(bid, idx, path, visits, live, decl_try, in_handler_of):
        # iterative would be nicer; recursion depth is bounded by path length (functions are small)
        while True:
            blk = fn.blocks[bid]
            evs = blk['events']
            while idx < len(evs):
                e = evs[idx]
                idx += 1
                t = top_term(e)
                # noreturn call ends the path
                if t is not None and t.get('k') == 'call' and t.get('short') in NORETURN_CALLS:
                    emit(path + [('ev', e), ('end', 'noreturn')])
                    return
                if exceptional and t is not None and t.get('k') in ('call', 'construct', 'new', 'throw') and may_throw(t) \
                        and (throw_filter is None or throw_filter(t)):
                    # exceptional continuation
                    tr = e.get('try')
                    p2 = path + [('throw', e, t)]
                    if tr and handlers.get(tr):
                        inner = [d for d in live if decl_try.get(d) == tr]
                        p2 = p2 + unwind_items(live, tr, decl_try)
                        live2 = [d for d in live if d not in inner]
                        for hb in handlers[tr]:
                            v2 = dict(visits)
                            walk(hb, 0, p2 + [('catch', hb)], v2, list(live2), dict(decl_try), tr)
                    else:
                        emit(p2 + unwind_items(live, None, decl_try) + [('end', 'propagate')])
                    if t.get('k') == 'throw':
                        return      # a throw expression never continues normally
                elif t is not None and t.get('k') == 'throw':
                    emit(path + [('ev', e), ('end', 'propagate')])
                    return
                path = path + [('ev', e)]
                if e['ev'] == 'decl':
                    for v in e['vars']:
                        if v['did'] in dtor_vars and v['did'] not in live:
                            live = live + [v['did']]
                            decl_try = dict(decl_try)
                            decl_try[v['did']] = e.get('try')
                elif e['ev'] == 'dtor' and e.get('what') == 'auto' and e.get('did') in live:
                    live = [d for d in live if d != e['did']]
            if bid == fn.exit:
                emit(path + [('end', 'return')])
                return
            if blk.get('noreturn') and not blk['succ']:
                emit(path + [('end', 'noreturn')])
                return
            succ = blk['succ']
            term = blk.get('term')
            if not succ:
                emit(path + [('end', 'noreturn')])
                return
            if term and term.get('cls') == 'CXXTryStmt':
                # the try-dispatch block: not on any normal path
                return
            nxt = []
            if len(succ) == 2 and term is not None and 'cond' in term:
                cond = term.get('leaf') or term['cond']
                if term.get('cls') in ('BinaryOperator',):
                    cond = term['cond']
                for i, s in enumerate(succ):
                    if s is None:
                        continue
                    other = succ[1 - i]
                    assume = other is not None and _is_assert_fail_block(fn, other)
                    nxt.append((s, ('br', cond, i == 0, assume, term.get('cls'), term.get('op'))))
            else:
                for s in succ:
                    if s is not None:
                        nxt.append((s, None))
            if not nxt:
                emit(path + [('end', 'noreturn')])
                return
            if len(nxt) == 1:
                s, item = nxt[0]
                if visits.get(s, 0) >= max_visits:
                    return
                visits[s] = visits.get(s, 0) + 1
                if item:
                    path = path + [item]
                bid, idx = s, 0
                continue
            for s, item in nxt:
                if visits.get(s, 0) >= max_visits:
                    continue
                v2 = dict(visits)
                v2[s] = v2.get(s, 0) + 1
                walk(s, 0, path + ([item] if item else []), v2, list(live), decl_try, in_handler_of)
            return

    def emit(p):
        count[0] += 1
        if count[0] > limit:
            raise PathLimit('%s: more than %d paths' % (fn.display, limit))
        out.append(p)

    walk(fn.entry, 0, [], {fn.entry: 1}, [], {}, None)
    return out


# --------------------------------------------------------------------------- symbolic environment

COMM = {'+', '*', '==', '!=', '&&', '||', '&', '|', '^'}
FLIP = {'>': '<', '>=': '<=', '<': '<', '<=': '<='}
NEG = {'<': '>=', '<=': '>', '>': '<=', '>=': '<', '==': '!=', '!=': '=='}


def _is_ptrish(t):
    t = strip_casts(t)
    if not isinstance(t, dict):
        return False
    ty = str(t.get('t', ''))
    return ty.endswith('*') or bool(t.get('lptr'))


class Env:
    """values of locals (and overwritten parameters / fields) along one path"""

    def __init__(self, fn, roles=None, inline=None, fields=None):
        self.fn = fn
        self.vals = {}          # did -> term
        self.fields = fields if fields is not None else {}   # canonical (receiver-substituted) field path -> term
        self.roles = roles or {}
        self.inline = inline    # callable(term) -> term or None (pure accessor inlining)

    def step(self, item):
        if item[0] != 'ev':
            return
        e = item[1]
        if e['ev'] == 'decl':
            for v in e['vars']:
                if 'init' in v and v['init'] is not None:
                    self.vals[v['did']] = self.subst(v['init'])
        elif e['ev'] == 'assign':
            lhs = e['lhs']
            rhs = self.subst(e['rhs'])
            op = e['op']
            if op != '=':
                rhs = {'k': 'bin', 'op': op[:-1], 'l': self.subst(lhs), 'r': rhs, 'lptr': _is_ptrish(self.subst(lhs))}
            self._store(lhs, rhs)
        elif e['ev'] == 'init' and e.get('field') and not e.get('implicit'):
            self._store({'k': 'member', 'name': e['field'], 'base': {'k': 'this'}}, self.subst(e['e']))
        elif e['ev'] == 'expr':
            t = e.get('e')
            # user-defined assignment operator: x = y (including move assignment from a temporary)
            if isinstance(t, dict) and t.get('k') == 'call' and t.get('short') == 'operator=' and 'recv' in t \
                    and len(t.get('args', [])) == 1:
                self._store(strip_casts(t['recv']), self.subst(strip_casts(t['args'][0])))
            # swap(x, y) / adl_swap(x, y) of two lvalues: the values are exchanged
            elif isinstance(t, dict) and t.get('k') == 'call' and t.get('short') in ('swap', 'adl_swap') and 'recv' not in t \
                    and len(t.get('args', [])) == 2 and all(strip_casts(a).get('k') in ('member', 'local', 'param') for a in t['args']):
                a, b = strip_casts(t['args'][0]), strip_casts(t['args'][1])
                va, vb = self.subst(a), self.subst(b)
                self._store(a, vb)
                self._store(b, va)
        elif e['ev'] == 'incdec':
            lhs = e['lhs']
            rhs = {'k': 'bin', 'op': '+' if e['op'] == '++' else '-', 'l': self.subst(lhs), 'r': {'k': 'lit', 'v': 1},
                   'lptr': _is_ptrish(self.subst(lhs))}
            self._store(lhs, rhs)

    def _field_of_construct(self, cons, field, depth=0):
        ctor = self.db.fns.get(cons.get('key'))
        if ctor is None or depth > 3:
            return None
        args = cons.get('args', [])
        binds = {}
        for prm, a in zip(ctor.params, args):
            binds[prm['did']] = a

        def rebind(x):
            if not isinstance(x, dict):
                return x
            if x.get('k') == 'param' and x.get('did') in binds:
                return binds[x['did']]
            out = {}
            for kk, vv in x.items():
                if isinstance(vv, dict):
                    out[kk] = rebind(vv)
                elif isinstance(vv, list):
                    out[kk] = [rebind(y) if isinstance(y, dict) else y for y in vv]
                else:
                    out[kk] = vv
            return out
        for e in ctor.events():
            if e['ev'] == 'init' and e.get('field') == field and not e.get('implicit'):
                return rebind(e['e'])
            if e['ev'] == 'init' and e.get('delegating') and isinstance(e.get('e'), dict) and e['e'].get('k') == 'construct':
                return self._field_of_construct(rebind(e['e']), field, depth + 1)
        return None

    def subst_path(self, t):
        """evaluate the *object path* of an lvalue: reference locals, parameters bound by inlining and `this` are
        replaced, but stored field values are not (the path names a storage location, not its content)"""
        t = strip_casts(t)
        if not isinstance(t, dict):
            return t
        k = t.get('k')
        if k in ('local', 'param'):
            v = self.vals.get(t.get('did'))
            ty = str(t.get('t', '')).strip()
            while ty.endswith('const') or ty.endswith('volatile'):
                ty = ty[:-5 if ty.endswith('const') else -8].strip()      # `node *const p`: still a pointer
            if v is not None and (ty.endswith('&') or ty.endswith('*') or k == 'param'):
                return v
            return t
        if k == 'un' and t.get('op') in ('++', '--', '++post', '--post') and isinstance(t.get('e'), dict):
            # the increment itself was already executed as an event of its own: as a sub-expression it only has a value
            v = self.subst(t['e'])
            if t['op'] in ('++', '--'):
                return v
            return {'k': 'bin', 'op': '-' if t['op'] == '++post' else '+', 'l': v, 'r': {'k': 'lit', 'v': 1}}
        if k == 'this' and '__this__' in self.vals:
            return {'k': 'un', 'op': '&', 'e': self.vals['__this__']}
        if k == 'member':
            return {'k': 'member', 'name': t['name'], 'base': self.subst_path(t.get('base'))}
        if k == 'un' and t['op'] in ('*', '&'):
            return {'k': 'un', 'op': t['op'], 'e': self.subst_path(t['e'])}
        if k == 'bin' and t.get('op') == '[]':
            return {'k': 'bin', 'op': '[]', 'l': self.subst_path(t['l']), 'r': self.subst(t['r'])}
        return self.subst(t)

    def lvalue_key(self, lhs):
        """canonical name of the storage location (parameters by role, like everything else)"""
        return canon(self.subst_path(lhs), self.roles)

    def subst_lvalue(self, t):
        return self.subst_path(t)

    def _store(self, lhs, val):
        lhs = strip_casts(lhs)
        if lhs.get('k') in ('local', 'param') and lhs.get('did') is not None and not str(lhs.get('t', '')).endswith('&'):
            self.vals[lhs['did']] = val
        elif lhs.get('k') in ('local', 'param') and lhs.get('did') in self.vals and str(lhs.get('t', '')).endswith('&'):
            # assignment through a reference local: store into what it refers to
            self._put(self.lvalue_key(self.vals[lhs['did']]), val)
        elif lhs.get('k') in ('local', 'param'):
            self.vals[lhs['did']] = val
        else:
            self._put(self.lvalue_key(lhs), val)

    def _put(self, key, val):
        # assigning a whole object invalidates what was known about its parts
        for k in [k for k in self.fields if k.startswith(key + '.') or k.startswith(key + '[')]:
            del self.fields[k]
        self.fields[key] = val

    def subst(self, t):
        """replace locals / overwritten params by their current symbolic value"""
        if not isinstance(t, dict):
            return t
        k = t.get('k')
        if k in ('local', 'param'):
            v = self.vals.get(t.get('did'))
            if v is not None:
                return v
            return t
        if k == 'un' and t.get('op') in ('++', '--', '++post', '--post') and isinstance(t.get('e'), dict):
            # the increment itself was already executed as an event of its own: as a sub-expression it only has a value
            v = self.subst(t['e'])
            if t['op'] in ('++', '--'):
                return v
            return {'k': 'bin', 'op': '-' if t['op'] == '++post' else '+', 'l': v, 'r': {'k': 'lit', 'v': 1}}
        if k == 'this' and '__this__' in self.vals:
            r = self.vals['__this__']
            # `this` is a pointer, the receiver term is the object
            return {'k': 'un', 'op': '&', 'e': r}
        if k == 'member':
            key = self.lvalue_key(t)
            if key in self.fields:
                return self.fields[key]
            # field of an object that was just (re)constructed on this path: take the constructor's initialiser
            base = strip_casts(self.subst(t.get('base')))
            if isinstance(base, dict) and base.get('k') == 'construct' and getattr(self, 'db', None) is not None:
                v = self._field_of_construct(base, t['name'])
                if v is not None:
                    return v
            # field of an aggregate built from a braced list (`return {fits, offset};` ... `.offset`): the element at the field's position
            if isinstance(base, dict) and base.get('k') == 'initlist' and getattr(self, 'db', None) is not None:
                crec = self.db.classes.get(base.get('type', '').replace('const ', '').strip())
                if crec is not None and not crec.get('bases'):
                    names = [f['name'] for f in crec.get('fields', []) if not f.get('static')]
                    elts = base.get('elts', [])
                    if t['name'] in names and names.index(t['name']) < len(elts):
                        return elts[names.index(t['name'])]
        out = {}
        for kk, vv in t.items():
            if isinstance(vv, dict):
                out[kk] = self.subst(vv)
            elif isinstance(vv, list):
                out[kk] = [self.subst(x) if isinstance(x, dict) else x for x in vv]
            else:
                out[kk] = vv
        if self.inline is not None and out.get('k') == 'call':
            r = self.inline(out)
            if r is not None:
                return r
        return out

    def c(self, t):
        return canon(self.subst(t), self.roles)


def strip_casts(t):
    while isinstance(t, dict):
        if t.get('k') == 'cast' and not t.get('narrow'):
            t = t['e']
        elif t.get('k') == 'construct' and t.get('ctor') in ('copy', 'move') and len(t.get('args', [])) == 1:
            t = t['args'][0]
        elif t.get('k') == 'call' and t.get('short') in ('move', 'forward') and len(t.get('args', [])) == 1 and not t.get('recv'):
            t = t['args'][0]
        else:
            break
    return t


def canon(t, roles=None):
    """canonical string: commutative operands sorted, comparisons oriented, non-narrowing casts dropped"""
    t = strip_casts(t)
    if t is None:
        return '<none>'
    if not isinstance(t, dict):
        return str(t)
    k = t.get('k')
    if k == 'param':
        if roles and t['i'] in roles:
            return '$' + roles[t['i']]
        return '$%s' % (t['name'] or t['i'])
    if k == 'local':
        return 'local:%s' % t['name']
    if k == 'this':
        return 'this'
    if k == 'fwdres':
        return 'R#%d' % t['n']
    if k == 'raw':
        return t['s']
    if k == 'member':
        b = strip_casts(t.get('base'))
        # p->f, (*p).f, (&x)->f all name the field f of the object: address-of / dereference pairs are dropped
        while isinstance(b, dict) and b.get('k') == 'un' and b['op'] in ('&', '*'):
            b = strip_casts(b['e'])
        if isinstance(b, dict) and b.get('k') == 'this':
            return 'this.' + t['name']
        if isinstance(b, dict) and b.get('k') == 'un' and b['op'] == '*' and strip_casts(b['e']).get('k') == 'this':
            return 'this.' + t['name']
        if isinstance(b, dict) and b.get('k') == 'un' and b['op'] == '&':
            # (&x)->f is x.f
            return '%s.%s' % (canon(b['e'], roles), t['name'])
        return '%s.%s' % (canon(b, roles), t['name'])
    if k == 'lit':
        if t.get('null'):
            return 'null'
        if t.get('bool'):
            return 'true' if t['v'] else 'false'
        return str(t.get('v', 'float'))
    if k == 'str':
        return 'str'
    if k in ('sizeof', 'alignof'):
        return '%s(%s)' % (k, strip_ns(t['t']))
    if k == 'tparam':
        return 'T:' + t['name']
    if k == 'global':
        return 'g:' + strip_ns(t['name'])
    if k == 'fnref':
        return '&' + strip_ns(t['name'])
    if k == 'un':
        op = t['op']
        if op == '!':
            inner = strip_casts(t['e'])
            if isinstance(inner, dict) and inner.get('k') == 'bin' and inner['op'] in NEG:
                return canon({'k': 'bin', 'op': NEG[inner['op']], 'l': inner['l'], 'r': inner['r']}, roles)
            if isinstance(inner, dict) and inner.get('k') == 'un' and inner['op'] == '!':
                return canon(inner['e'], roles)
        if op in ('*', '&'):
            inner = strip_casts(t['e'])
            if isinstance(inner, dict) and inner.get('k') == 'un' and inner['op'] in ('*', '&') and inner['op'] != op:
                return canon(inner['e'], roles)
        return '%s(%s)' % (op, canon(t['e'], roles))
    if k == 'bin':
        op = t['op']
        if op in ('==', '!='):
            # x == nullptr / x == false / x == 0 on a pointer  ->  !x ;  x != nullptr -> x
            for a, b in ((t['l'], t['r']), (t['r'], t['l'])):
                bb = strip_casts(b)
                if isinstance(bb, dict) and bb.get('k') == 'lit' and (bb.get('null') or (bb.get('bool') and bb.get('v') is False)):
                    return canon(a, roles) if op == '!=' else '!(%s)' % canon(a, roles)
                if isinstance(bb, dict) and bb.get('k') == 'lit' and bb.get('bool') and bb.get('v') is True:
                    return canon(a, roles) if op == '==' else '!(%s)' % canon(a, roles)
        l, r = canon(t['l'], roles), canon(t['r'], roles)
        if op in ('>', '>='):
            op = FLIP[op]
            l, r = r, l
        # neutral elements: x + 0, 0 + x, x - 0, x * 1, 1 * x are x (a fence of size 0, a ternary resolved to 0)
        if op == '+' and '0' in (l, r):
            return r if l == '0' else l
        if op == '-' and r == '0':
            return l
        if op == '*' and '1' in (l, r):
            return r if l == '1' else l
        if op in COMM and l > r:
            l, r = r, l
        if op == '[]':
            return '%s[%s]' % (l, r)
        return '(%s %s %s)' % (l, op, r)
    if k == 'cond':
        return '(%s ? %s : %s)' % (canon(t['c'], roles), canon(t['t'], roles), canon(t['f'], roles))
    if k == 'call':
        args = ','.join(canon(a, roles) for a in t.get('args', []))
        name = t.get('short', '?')
        if t.get('indirect'):
            return 'indirect[%s](%s)' % (canon(t.get('fn'), roles), args)
        if 'recv' in t:
            rv = strip_casts(t['recv'])
            # p->f(), (*p).f(), (&x)->f(): the receiver is the object
            while isinstance(rv, dict) and rv.get('k') == 'un' and rv['op'] in ('&', '*'):
                rv = strip_casts(rv['e'])
            return '%s.%s(%s)' % (canon(rv, roles), name, args)
        cls = t.get('cls')
        if cls:
            return '%s::%s(%s)' % (strip_ns(cls), name, args)
        return '%s(%s)' % (name, args)
    if k == 'construct':
        ty = strip_ns(t['type'])
        if ty.startswith('const '):
            ty = ty[len('const '):]         # `const T x(a, b)` constructs the same object as `T x(a, b)`
        return '%s{%s}' % (ty, ','.join(canon(a, roles) for a in t.get('args', [])))
    if k == 'cast':
        return '(%s)%s' % (t['to'], canon(t['e'], roles))
    if k == 'new':
        return 'new(%s)%s' % (','.join(canon(a, roles) for a in t.get('placement', [])), strip_ns(t['type']))
    if k == 'initlist':
        return '{%s}' % ','.join(canon(a, roles) for a in t['elts'])
    if k == 'lambda':
        return 'lambda'
    if k == 'dep':
        return 'dep:%s%s' % ((canon(t['base'], roles) + '.') if t.get('base') else '', t['name'])
    if k == 'typetrait':
        return 'trait:%s' % t.get('v')
    if k == 'noexcept_expr':
        return 'noexcept:%s' % t.get('v')
    return '<%s>' % k


def path_conditions(path, env_factory):
    """list of canonical (cond, taken) for non-assume branches along the path, evaluated in the running env"""
    env = env_factory()
    out = []
    for it in path:
        if it[0] == 'ev':
            env.step(it)
        elif it[0] == 'br':
            _, cond, taken, assume = it[:4]
            if assume:
                continue
            c = env.c(cond)
            out.append((c, taken))
    return out


def norm_cond(c, taken):
    """canonical string of a branch outcome"""
    return c if taken else 'not(%s)' % c
