"""Self-test fixtures: tiny translation units under /verif/fixtures on which a rule must fire (and must stay
silent on the good variants).  A rule whose fixture stops firing makes the check ANALYSIS-BROKEN: a rule that
can no longer see a violation proves nothing by being silent on /repo."""
import os
import re
import shutil
import tempfile

from . import build, facts


def load_fixture_db(name, cfg='debug'):
    path = os.path.join(build.VERIF, 'fixtures', name)
    if not os.path.exists(path):
        raise build.AnalysisBroken('fixture %s missing' % name)
    tmp = tempfile.mkdtemp(prefix='verif-fix-')
    try:
        with open(os.path.join(tmp, 'config_impl.hpp'), 'w') as f:
            f.write(build.render_config(cfg))
        out = os.path.join(tmp, 'facts.jsonl')
        src, ok, log = build._extract_one((path, out, build.flags(tmp) + ['-I' + os.path.join(build.VERIF, 'fixtures')]))
        if not ok:
            raise build.AnalysisBroken('fixture %s does not compile: %s' % (name, log[-600:]))
        db = facts.DB(cfg)
        db.load(out, name)
        return db
    finally:
        shutil.rmtree(tmp, ignore_errors=True)


def expectations(name):
    txt = open(os.path.join(build.VERIF, 'fixtures', name)).read()
    fire = set()
    silent = set()
    for m in re.finditer(r'//\s*EXPECT-FIRE:\s*(.*)', txt):
        fire |= set(m.group(1).split())
    for m in re.finditer(r'//\s*EXPECT-SILENT:\s*(.*)', txt):
        silent |= set(m.group(1).split())
    return fire, silent


def expect_fire(run, name, pred, rule, cfg='debug'):
    """pred(db) -> iterable of names the rule fired on.  Must equal EXPECT-FIRE and avoid EXPECT-SILENT."""
    db = load_fixture_db(name, cfg)
    fired = set(pred(db))
    fire, silent = expectations(name)
    if not fire:
        run.broke('fixture %s declares no EXPECT-FIRE' % name)
    missed = fire - fired
    wrong = fired & silent
    if missed:
        run.broke('self-test: rule %s no longer fires on fixture %s for %s' % (rule, name, sorted(missed)))
    if wrong:
        run.broke('self-test: rule %s false-alarms on the good fixture cases %s of %s' % (rule, sorted(wrong), name))
    run.count('fixture_cases_checked', len(fire) + len(silent))
    run.note('self-test %s/%s: fired on %s, silent on %s' % (rule, name, sorted(fire & fired), sorted(silent - fired)))
