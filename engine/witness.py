"""Compile-time witnesses: static_assert / explicit instantiation / -verify compile-fail cases.
A witness file is compiled with `clang++ -fsyntax-only` (never linked, never run)."""
import os
import re
import subprocess

from . import build


def count_assertions(path):
    txt = open(path).read()
    n = len(re.findall(r'\bstatic_assert\s*\(', txt)) + len(re.findall(r'\bW_[A-Z_]+\s*\(', txt))
    n += len(re.findall(r'expected-error', txt))
    return n


def compile_witness(path, cfg, extra_flags=(), compiler='clang++', verify=False, extra_include=None):
    """returns (ok, diagnostics list of (file:line, message))"""
    with build.with_scratch_config(cfg) as cfgdir:
        fl = build.flags(cfgdir, extra_flags)
        if extra_include:
            fl = ['-I' + extra_include] + fl
        if compiler.startswith('g++'):
            fl = [f for f in fl if f != '-Wno-everything'] + ['-w', '-fmax-errors=0']
        else:
            fl = fl + ['-ferror-limit=0']
        cmd = [compiler, '-fsyntax-only'] + fl
        if verify:
            cmd += ['-Xclang', '-verify']
        cmd.append(path)
        p = subprocess.run(cmd, stdout=subprocess.PIPE, stderr=subprocess.STDOUT, text=True)
    diags = []
    for line in p.stdout.splitlines():
        m = re.match(r'(.+?):(\d+):(\d+): (?:fatal )?error: (.*)', line)
        if m:
            diags.append(('%s:%s' % (m.group(1), m.group(2)), m.group(4)))
    return p.returncode == 0, diags, p.stdout


def run_witness(run, rule, relpath, cfgs, verify=False, compilers=('clang++',), extra_flags=(), extra_include=None):
    path = os.path.join(build.VERIF, 'witness', relpath)
    if not os.path.exists(path):
        run.broke('witness %s missing' % relpath)
        return
    n = count_assertions(path)
    for cfg in cfgs:
        for cc in compilers:
            if verify and not cc.startswith('clang'):
                continue
            ok, diags, raw = compile_witness(path, cfg, extra_flags, cc, verify, extra_include)
            run.count('witness_assertions_compiled', n)
            inst = '%s [%s, %s]' % (relpath, cfg, cc)
            if ok:
                run.ok(rule, inst, path, '%d compile-time assertion(s) hold' % n)
            elif not diags:
                run.broke('witness %s did not compile and produced no diagnostics: %s' % (inst, raw[-400:]))
            else:
                for where, msg in diags[:10]:
                    # a failed static_assert / expected-error mismatch names the clause
                    if 'static_assert' in msg or 'static assertion' in msg or 'expected' in msg or verify:
                        run.violation(rule, inst, where, msg[:300],
                                      site={'function': relpath, 'role': _role(msg)})
                    else:
                        run.violation(rule, inst, where, 'witness does not compile: ' + msg[:300],
                                      site={'function': relpath, 'role': _role(msg)})


def _role(msg):
    m = re.search(r'"([^"]+)"', msg)
    if m:
        return m.group(1)[:80]
    m = re.search(r"'([^']+)'", msg)
    return m.group(1)[:80] if m else msg[:60]
