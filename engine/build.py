"""Inputs from /repo on every run: TU list, configurations, flags, fact extraction (with a
content-addressed cache so that back-to-back checks on the same tree extract once)."""
import hashlib
import json
import os
import pickle
import re
import shutil
import subprocess
import sys
import tempfile
import time
from concurrent.futures import ThreadPoolExecutor

from . import facts

VERIF = os.path.dirname(os.path.dirname(os.path.abspath(__file__)))
REPO = os.environ.get('VERIF_REPO', '/repo')
MEMFACTS = os.path.join(VERIF, 'tool', 'memfacts')
CACHE = os.environ.get('VERIF_CACHE', os.path.join(VERIF, '.cache'))


class AnalysisBroken(Exception):
    pass


# --------------------------------------------------------------------------- configurations
# cmake variable -> value, per configuration.  `pinned` is what the pinned test suite builds
# (RelWithDebInfo); `debug` is CMAKE_BUILD_TYPE=Debug; see cmake/configuration.cmake.
_BASE = {
    'FOONATHAN_MEMORY_CHECK_ALLOCATION_SIZE': 1,
    'FOONATHAN_MEMORY_DEFAULT_ALLOCATOR': 'heap_allocator',
    'FOONATHAN_MEMORY_EXTERN_TEMPLATE': 1,
    'FOONATHAN_MEMORY_TEMPORARY_STACK_MODE': 2,
}
CONFIGS = {
    'pinned': dict(_BASE, FOONATHAN_MEMORY_DEBUG_ASSERT=0, FOONATHAN_MEMORY_DEBUG_FILL=1,
                   FOONATHAN_MEMORY_DEBUG_FENCE=0, FOONATHAN_MEMORY_DEBUG_LEAK_CHECK=1,
                   FOONATHAN_MEMORY_DEBUG_POINTER_CHECK=1, FOONATHAN_MEMORY_DEBUG_DOUBLE_DEALLOC_CHECK=0),
    'debug': dict(_BASE, FOONATHAN_MEMORY_DEBUG_ASSERT=1, FOONATHAN_MEMORY_DEBUG_FILL=1,
                  FOONATHAN_MEMORY_DEBUG_FENCE=8, FOONATHAN_MEMORY_DEBUG_LEAK_CHECK=1,
                  FOONATHAN_MEMORY_DEBUG_POINTER_CHECK=1, FOONATHAN_MEMORY_DEBUG_DOUBLE_DEALLOC_CHECK=1),
    'release': dict(_BASE, FOONATHAN_MEMORY_DEBUG_ASSERT=0, FOONATHAN_MEMORY_DEBUG_FILL=0,
                    FOONATHAN_MEMORY_DEBUG_FENCE=0, FOONATHAN_MEMORY_DEBUG_LEAK_CHECK=0,
                    FOONATHAN_MEMORY_DEBUG_POINTER_CHECK=0, FOONATHAN_MEMORY_DEBUG_DOUBLE_DEALLOC_CHECK=0),
    'debug_fence16': dict(_BASE, FOONATHAN_MEMORY_DEBUG_ASSERT=1, FOONATHAN_MEMORY_DEBUG_FILL=1,
                          FOONATHAN_MEMORY_DEBUG_FENCE=16, FOONATHAN_MEMORY_DEBUG_LEAK_CHECK=1,
                          FOONATHAN_MEMORY_DEBUG_POINTER_CHECK=1, FOONATHAN_MEMORY_DEBUG_DOUBLE_DEALLOC_CHECK=1),
    'debug_tsm0': dict(_BASE, FOONATHAN_MEMORY_DEBUG_ASSERT=1, FOONATHAN_MEMORY_DEBUG_FILL=1,
                       FOONATHAN_MEMORY_DEBUG_FENCE=8, FOONATHAN_MEMORY_DEBUG_LEAK_CHECK=1,
                       FOONATHAN_MEMORY_DEBUG_POINTER_CHECK=1, FOONATHAN_MEMORY_DEBUG_DOUBLE_DEALLOC_CHECK=1,
                       FOONATHAN_MEMORY_TEMPORARY_STACK_MODE=0),
    'nocheck': dict(_BASE, FOONATHAN_MEMORY_DEBUG_ASSERT=0, FOONATHAN_MEMORY_DEBUG_FILL=1,
                    FOONATHAN_MEMORY_DEBUG_FENCE=0, FOONATHAN_MEMORY_DEBUG_LEAK_CHECK=1,
                    FOONATHAN_MEMORY_DEBUG_POINTER_CHECK=1, FOONATHAN_MEMORY_DEBUG_DOUBLE_DEALLOC_CHECK=0,
                    FOONATHAN_MEMORY_CHECK_ALLOCATION_SIZE=0),
}
QUICK_CONFIGS = ['pinned', 'debug']
# temporary-stack mode 1 is not in the matrix: src/temporary_allocator.cpp does not compile in that mode with g++ 12 / clang 14
# (`thread_local alignas(T) char ...`: attribute in the middle of the decl-specifiers) - see DESIGN.md section 8
THOROUGH_CONFIGS = ['pinned', 'debug', 'release', 'debug_fence16', 'debug_tsm0', 'nocheck']


def render_config(cfg):
    """substitute /repo/src/config.hpp.in the way cmake's configure_file does"""
    src = open(os.path.join(REPO, 'src', 'config.hpp.in')).read()
    vals = CONFIGS[cfg]
    out = []
    for line in src.splitlines():
        m = re.match(r'\s*#cmakedefine01\s+(\w+)', line)
        if m:
            v = m.group(1)
            if v not in vals:
                raise AnalysisBroken('config.hpp.in uses unknown option %s' % v)
            out.append('#define %s %d' % (v, 1 if vals[v] else 0))
            continue

        def sub(mm):
            v = mm.group(1)
            if v not in vals:
                raise AnalysisBroken('config.hpp.in uses unknown variable %s' % v)
            return str(vals[v])
        out.append(re.sub(r'\$\{(\w+)\}', sub, line))
    return '\n'.join(out) + '\n'


def versions():
    txt = open(os.path.join(REPO, 'CMakeLists.txt')).read()
    v = {}
    for part in ('MAJOR', 'MINOR', 'PATCH'):
        m = re.search(r'set\(FOONATHAN_MEMORY_VERSION_%s\s+(\d+)' % part, txt)
        if not m:
            raise AnalysisBroken('version %s not found in CMakeLists.txt' % part)
        v[part] = m.group(1)
    return v


def flags(cfgdir, extra=()):
    v = versions()
    return ['-std=gnu++17', '-UNDEBUG', '-I' + os.path.join(REPO, 'include'),
            '-I' + os.path.join(REPO, 'include', 'foonathan', 'memory'), '-I' + cfgdir,
            '-I' + os.path.join(VERIF, 'drivers'),
            '-DFOONATHAN_MEMORY=1',
            '-DFOONATHAN_MEMORY_VERSION_MAJOR=' + v['MAJOR'],
            '-DFOONATHAN_MEMORY_VERSION_MINOR=' + v['MINOR'],
            '-DFOONATHAN_MEMORY_VERSION_PATCH=' + v['PATCH'],
            '-Wno-everything'] + list(extra)


def library_tus():
    """TU list from src/CMakeLists.txt cross-checked against the directory"""
    txt = open(os.path.join(REPO, 'src', 'CMakeLists.txt')).read()
    m = re.search(r'set\(src\s+(.*?)\)', txt, re.S)
    if not m:
        raise AnalysisBroken('set(src ...) not found in src/CMakeLists.txt')
    listed = sorted(x for x in m.group(1).split() if x.endswith('.cpp'))
    on_disk = []
    for root, _, files in os.walk(os.path.join(REPO, 'src')):
        for f in files:
            if f.endswith('.cpp'):
                on_disk.append(os.path.relpath(os.path.join(root, f), os.path.join(REPO, 'src')))
    on_disk.sort()
    if listed != on_disk:
        raise AnalysisBroken('src/CMakeLists.txt and src/ disagree on the translation units: %s vs %s'
                             % (sorted(set(listed) ^ set(on_disk)), ''))
    return [os.path.join(REPO, 'src', x) for x in listed]


def tree_hash(extra_files=()):
    h = hashlib.sha256()
    paths = []
    for sub in ('include', 'src', 'cmake'):
        for root, dirs, files in os.walk(os.path.join(REPO, sub)):
            dirs.sort()
            for f in sorted(files):
                paths.append(os.path.join(root, f))
    paths.append(os.path.join(REPO, 'CMakeLists.txt'))
    paths.extend(extra_files)
    paths.append(MEMFACTS)
    for p in paths:
        h.update(p.encode())
        try:
            with open(p, 'rb') as f:
                h.update(f.read())
        except OSError:
            h.update(b'<missing>')
    return h.hexdigest()[:24]


def driver_files():
    d = os.path.join(VERIF, 'drivers')
    out = []
    if os.path.isdir(d):
        for f in sorted(os.listdir(d)):
            if f.endswith('.cpp') or f.endswith('.hpp'):
                out.append(os.path.join(d, f))
    return out


def _prune_cache(keep):
    root = os.path.join(CACHE, 'facts')
    if not os.path.isdir(root):
        return
    ents = [(os.path.getmtime(os.path.join(root, e)), e) for e in os.listdir(root)]
    ents.sort(reverse=True)
    for _, e in ents[3:]:
        if e != keep:
            shutil.rmtree(os.path.join(root, e), ignore_errors=True)


def _extract_one(args):
    src, out, fl = args
    cmd = [MEMFACTS, '-o', out, '--root', REPO + '/', '--root', os.path.join(VERIF, 'drivers') + '/', '--root', os.path.join(VERIF, 'fixtures') + '/', src, '--'] + fl
    p = subprocess.run(cmd, stdout=subprocess.PIPE, stderr=subprocess.STDOUT, text=True)
    ok = p.returncode == 0 and os.path.exists(out) and os.path.getsize(out) > 0
    return src, ok, p.stdout[-3000:]


_DB_MEMO = {}


def load_db(cfg, drivers=None, log=None):
    """facts of configuration `cfg`: all library TUs plus the named drivers (default: all under
    /verif/drivers).  Extraction output is cached by content hash of the tree."""
    if not os.path.exists(MEMFACTS):
        raise AnalysisBroken('extractor not built: run MANIFEST.setup_cmd (make -C /verif/tool)')
    drv = [d for d in driver_files() if d.endswith('.cpp')]
    if drivers is not None:
        drv = [d for d in drv if os.path.basename(d) in drivers]
    key = tree_hash(driver_files())
    memo = (key, cfg, tuple(drv))
    if memo in _DB_MEMO:
        return _DB_MEMO[memo]
    base = os.path.join(CACHE, 'facts', key, cfg)
    os.makedirs(base, exist_ok=True)
    tus = library_tus()
    units = tus + drv
    todo = []
    cfgdir = None
    outs = {}
    for u in units:
        name = os.path.relpath(u, REPO if u.startswith(REPO) else VERIF).replace('/', '__')
        out = os.path.join(base, name + '.jsonl')
        outs[u] = out
        if not os.path.exists(out + '.ok'):
            todo.append(u)
    t0 = time.time()
    if todo:
        cfgdir = tempfile.mkdtemp(prefix='verif-cfg-')
        try:
            with open(os.path.join(cfgdir, 'config_impl.hpp'), 'w') as f:
                f.write(render_config(cfg))
            # container_node_sizes_impl.hpp is only needed by container.hpp; C10 generates the real one.
            fl = flags(cfgdir)
            jobs = [(u, outs[u], fl) for u in todo]
            with ThreadPoolExecutor(max_workers=16) as ex:
                for src, ok, outp in ex.map(_extract_one, jobs):
                    if not ok:
                        raise AnalysisBroken('extractor failed on %s [%s]:\n%s' % (src, cfg, outp))
                    open(outs[src] + '.ok', 'w').close()
        finally:
            shutil.rmtree(cfgdir, ignore_errors=True)
    db = facts.DB(cfg)
    # merged pickle per (cfg, driver set) to avoid re-parsing JSON
    pk = os.path.join(base, 'merged-%s.pickle' % hashlib.sha1('|'.join(units).encode()).hexdigest()[:10])
    if os.path.exists(pk) and not todo:
        try:
            with open(pk, 'rb') as f:
                db = pickle.load(f)
        except Exception:
            db = None
    else:
        db = None
    if db is None:
        db = facts.DB(cfg)
        for u in units:
            db.load(outs[u], os.path.basename(u))
        try:
            sys.setrecursionlimit(10000)
            with open(pk + '.tmp', 'wb') as f:
                pickle.dump(db, f, protocol=pickle.HIGHEST_PROTOCOL)
            os.replace(pk + '.tmp', pk)
        except Exception:
            pass
    # helpers no rule knows are transparent: their bodies are spliced into their callers' graphs (engine/inline.py)
    from . import inline
    inline.self_test()
    db.n_inlined = inline.inline_helpers(db)
    if os.environ.get('VERIF_RENAME'):
        # development self-test: every parameter and local variable of the analysed program gets another name;
        # a rule whose verdict changes depends on an identifier it must not depend on
        facts.rename_names(db, os.environ['VERIF_RENAME'])
    db.extract_s = time.time() - t0
    db.n_tus = len(units)
    db.tree_key = key
    _prune_cache(key)
    _DB_MEMO[memo] = db
    if log:
        log('facts[%s]: %d TUs, %d functions, %d classes (%.1fs); %d call(s) of helpers unknown to the rules inlined %s'
            % (cfg, len(units), len(db.fns), len(db.classes), db.extract_s, db.n_inlined, db.inlined_helpers[:12]))
    return db


def with_scratch_config(cfg):
    """context manager giving a scratch include dir holding config_impl.hpp for cfg"""
    class _C:
        def __enter__(self):
            self.d = tempfile.mkdtemp(prefix='verif-cfg-')
            with open(os.path.join(self.d, 'config_impl.hpp'), 'w') as f:
                f.write(render_config(cfg))
            return self.d

        def __exit__(self, *a):
            shutil.rmtree(self.d, ignore_errors=True)
    return _C()


def node_sizes_dir(log=None):
    """directory holding container_node_sizes_impl.hpp generated by the repository's own cmake script
    (cmake/get_container_node_sizes.cmake) in a scratch configure; cached by the content of /repo/cmake and the CMakeLists files"""
    h = hashlib.sha256()
    paths = [os.path.join(REPO, 'CMakeLists.txt'), os.path.join(REPO, 'src', 'CMakeLists.txt')]
    for root, dirs, files in os.walk(os.path.join(REPO, 'cmake')):
        dirs.sort()
        for f in sorted(files):
            paths.append(os.path.join(root, f))
    for p in paths:
        h.update(p.encode())
        try:
            h.update(open(p, 'rb').read())
        except OSError:
            h.update(b'<missing>')
    key = h.hexdigest()[:20]
    out = os.path.join(CACHE, 'nodesizes', key)
    hdr = os.path.join(out, 'container_node_sizes_impl.hpp')
    if os.path.exists(hdr):
        return out
    os.makedirs(out, exist_ok=True)
    scratch = tempfile.mkdtemp(prefix='verif-cmake-')
    try:
        t0 = time.time()
        p = subprocess.run(['cmake', '-S', REPO, '-B', scratch, '-G', 'Ninja', '-DFOONATHAN_MEMORY_BUILD_TESTS=OFF',
                            '-DFOONATHAN_MEMORY_BUILD_EXAMPLES=OFF', '-DFOONATHAN_MEMORY_BUILD_TOOLS=OFF'],
                           stdout=subprocess.PIPE, stderr=subprocess.STDOUT, text=True)
        gen = os.path.join(scratch, 'src', 'container_node_sizes_impl.hpp')
        if p.returncode != 0 or not os.path.exists(gen):
            raise AnalysisBroken('scratch cmake configure did not produce container_node_sizes_impl.hpp:\n' + p.stdout[-1500:])
        shutil.copy(gen, hdr)
        if log:
            log('generated container_node_sizes_impl.hpp through the repository\'s cmake script (%.1fs)' % (time.time() - t0))
    finally:
        shutil.rmtree(scratch, ignore_errors=True)
    # keep at most two generations
    root = os.path.join(CACHE, 'nodesizes')
    ents = sorted(((os.path.getmtime(os.path.join(root, e)), e) for e in os.listdir(root)), reverse=True)
    for _, e in ents[2:]:
        shutil.rmtree(os.path.join(root, e), ignore_errors=True)
    return out
