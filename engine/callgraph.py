"""Call graph over the extracted facts (direct callees, constructors, destructors)."""
from .facts import subterms


def callee_keys(fn):
    """keys of all functions fn calls directly (resolved), including ctors, implicit dtors, lambdas defined in it"""
    out = set()
    for e in fn.events():
        if e['ev'] == 'dtor':
            if e.get('key'):
                out.add(e['key'])
            continue
        for fld in ('e', 'lhs', 'rhs'):
            t = e.get(fld)
            if isinstance(t, dict):
                for s in subterms(t):
                    if s.get('k') in ('call', 'construct') and s.get('key'):
                        out.add(s['key'])
                    elif s.get('k') == 'lambda' and s.get('fn'):
                        out.add(s['fn'])
        if e['ev'] == 'decl':
            for v in e['vars']:
                if isinstance(v.get('init'), dict):
                    for s in subterms(v['init']):
                        if s.get('k') in ('call', 'construct') and s.get('key'):
                            out.add(s['key'])
                        elif s.get('k') == 'lambda' and s.get('fn'):
                            out.add(s['fn'])
    return out


def reachable_fns(db, roots, stop=None):
    """transitive closure over functions whose bodies are in db. returns dict key -> Fn, and the set of
    callee keys without a body in db (external)."""
    seen = {}
    external = set()
    work = [r.key for r in roots]
    while work:
        k = work.pop()
        if k in seen:
            continue
        fn = db.fns.get(k)
        if fn is None:
            external.add(k)
            continue
        seen[k] = fn
        if stop and stop(fn):
            continue
        work.extend(callee_keys(fn))
    return seen, external


def virtual_overriders(db, base_cls_t, short):
    return [f for f in db.fns.values() if f.short == short and f.rec.get('virtual') and not f.pattern]
