"""Transparent helpers: control-flow-graph inlining of helpers the rules do not know.

"Extract function" is the most common behaviour-preserving edit: a few statements of an allocation path move into a new private
member function or a file-local function.  The rules are written against the functions the properties are anchored in, so a helper
they have never heard of must not hide what its caller does.  Before any rule runs, every call of a *transparent* helper is replaced
by the helper's body in the caller's CFG (blocks spliced, parameters bound, locals and term ids renamed apart, the returned value
bound to a synthetic local that later uses of the call's value refer to).

A helper is transparent when all of these hold
  * only its own class (non-public member function of the caller's class) or only its own translation unit (free function with
    internal linkage) can call it,
  * no rule names it: its short name does not occur as a word in a string literal of the sources of /verif/rules and /verif/engine
    (helpers that exist today and that a rule looks for - block_end(), info(), ... - stay calls; a helper introduced later is unknown
    and inlined),
  * it is small, has a body, is not recursive, not a constructor / destructor / operator, and contains no try block.

Inlining preserves the caller's semantics, so a rule deciding the caller on the inlined graph decides the real behaviour.  The helper
itself stays in the fact base as a function of its own.
"""
import os
import re

from .facts import Fn

_WORDS = None


def rule_words():
    """words that occur in string literals (not docstrings) of the rule and engine sources: the names a rule can look for"""
    global _WORDS
    if _WORDS is None:
        import ast
        words = set()
        root = os.path.dirname(os.path.dirname(os.path.abspath(__file__)))
        for sub in ('rules', 'engine'):
            d = os.path.join(root, sub)
            for fn in sorted(os.listdir(d)):
                if not fn.endswith('.py'):
                    continue
                with open(os.path.join(d, fn)) as f:
                    src = f.read()
                try:
                    tree = ast.parse(src)
                except SyntaxError:
                    words.update(re.findall(r'[A-Za-z_]\w*', src))
                    continue
                doc = {id(n.value) for n in ast.walk(tree) if isinstance(n, ast.Expr) and isinstance(n.value, ast.Constant)}
                for n in ast.walk(tree):
                    if isinstance(n, ast.Constant) and isinstance(n.value, str) and id(n) not in doc:
                        words.update(re.findall(r'[A-Za-z_]\w*', n.value))
        _WORDS = words
    return _WORDS


def _repo_root():
    from . import build
    return os.path.join(build.REPO, '')


MAX_BLOCKS = 16
MAX_ROUNDS = 6


def _walk_terms(x, fn):
    """rebuild x with fn applied bottom-up to every dict"""
    if isinstance(x, dict):
        out = {}
        for k, v in x.items():
            out[k] = _walk_terms(v, fn)
        return fn(out)
    if isinstance(x, list):
        return [_walk_terms(v, fn) for v in x]
    return x


def _has(x, pred):
    if isinstance(x, dict):
        if pred(x):
            return True
        return any(_has(v, pred) for v in x.values())
    if isinstance(x, list):
        return any(_has(v, pred) for v in x)
    return False


def transparent(caller, callee, words):
    if callee is None or callee.pattern or callee.key == caller.key or not callee.blocks:
        return False
    if callee.kind == 'lambda':
        # a closure defined in the caller and called there is a part of the caller
        if callee.rec.get('parent_fn') != caller.key or len(callee.blocks) > MAX_BLOCKS:
            return False
        for b in callee.blocks.values():
            if b.get('label'):
                return False
            for e in b['events']:
                if 'try' in e or e.get('in_handler'):
                    return False
        return True
    if callee.kind not in ('method', 'free') or callee.short.startswith('operator'):
        return False
    if callee.rec.get('virtual'):
        return False
    member = bool(callee.cls) and callee.cls == caller.cls and bool(callee.rec.get('nonpublic'))
    local_free = not callee.cls and bool(callee.rec.get('internal'))
    if not (member or local_free):
        return False
    if callee.short in words:
        return False
    if len(callee.blocks) > MAX_BLOCKS:
        return False
    for b in callee.blocks.values():
        if b.get('label'):
            return False
        for e in b['events']:
            if 'try' in e or e.get('in_handler'):
                return False
            # recursion
            t = e.get('e')
            if isinstance(t, dict) and t.get('k') == 'call' and t.get('key') == callee.key:
                return False
    return True


def _max_ids(fn):
    md, mi = [0], [0]

    def see(d):
        if isinstance(d.get('did'), int):
            md[0] = max(md[0], d['did'])
        if isinstance(d.get('id'), int) and d.get('k') in ('call', 'construct', 'new', 'delete', 'throw', 'lambda'):
            mi[0] = max(mi[0], d['id'])
        return d
    for b in fn.blocks.values():
        for e in b['events']:
            _walk_terms(dict(e), see)
        if b.get('term'):
            _walk_terms(b['term'], see)
    for p in fn.params:
        if isinstance(p.get('did'), int):
            md[0] = max(md[0], p['did'])
    return md[0], mi[0]


def _assigned_params(callee):
    out = set()
    for b in callee.blocks.values():
        for e in b['events']:
            if e['ev'] in ('assign', 'incdec'):
                l = e.get('lhs')
                while isinstance(l, dict) and l.get('k') in ('cast', 'paren') and isinstance(l.get('e'), dict):
                    l = l['e']
                if isinstance(l, dict) and l.get('k') == 'param':
                    out.add(l.get('i'))
            # address taken / passed on by reference is not tracked: by-value parameters of class type are rare in helpers
    return out


def _stable_arg(a):
    """is the argument's value unaffected by anything the helper can do?  (caller's locals and parameters, literals, arithmetic on them)"""
    return not _has(a, lambda d: d.get('k') in ('member', 'call', 'construct', 'new', 'this', 'global', 'lambda') or
                    (d.get('k') == 'un' and d.get('op') in ('*', '++', '--')))


def inline_one(caller, bid, idx, callee, serial):
    """new fn record of `caller` with the call event (bid, idx) replaced by callee's body"""
    call_ev = caller.blocks[bid]['events'][idx]
    call = call_ev['e']
    max_did, max_id = _max_ids(caller)
    did_off = max_did + 1000 * (serial + 1)
    id_off = max_id + 1000 * (serial + 1)
    assigned = _assigned_params(callee)
    args = call.get('args', [])
    pre_events = []
    bind = {}          # param index -> term
    for i, prm in enumerate(callee.params):
        if i >= len(args):
            return None
        a = args[i]
        is_ref = '&' in str(prm.get('t', ''))
        if is_ref or (_stable_arg(a) and i not in assigned):      # a reference parameter is a name for the argument, also when it is assigned
            bind[i] = a
        else:
            nd = did_off + 900 + i
            nm = '%s__in%d' % (prm.get('name') or 'arg', serial)
            pre_events.append({'ev': 'decl', 'loc': call.get('loc', ''), 'vars': [{'did': nd, 'name': nm, 't': prm.get('t', ''), 'init': a}]})
            bind[i] = {'k': 'local', 'did': nd, 'name': nm, 't': prm.get('t', '')}
    recv = call.get('recv') if callee.kind != 'lambda' else None     # `this` inside a closure is the enclosing object
    r0 = recv
    while isinstance(r0, dict) and r0.get('k') in ('cast', 'paren') and isinstance(r0.get('e'), dict):
        r0 = r0['e']
    if isinstance(r0, dict) and (r0.get('k') == 'this' or (r0.get('k') == 'un' and r0.get('op') == '*' and isinstance(r0.get('e'), dict) and r0['e'].get('k') == 'this')):
        recv = None         # called on the caller's own object: `this` stays `this`

    # the callee's own locals are renamed apart; what a closure captured from the caller keeps its identity
    own_dids = {v.get('did') for b in callee.blocks.values() for e in b['events'] if e['ev'] == 'decl' for v in e.get('vars', [])}

    def rewrite(d):
        k = d.get('k')
        if k == 'param' and d.get('i') in bind and d.get('did') in {p.get('did') for p in callee.params}:
            return bind[d['i']]
        if k == 'local' and isinstance(d.get('did'), int) and d['did'] in own_dids:
            return dict(d, did=d['did'] + did_off)
        if recv is not None:
            if k == 'un' and d.get('op') == '*' and isinstance(d.get('e'), dict) and d['e'].get('k') == 'un' and d['e'].get('op') == '&' \
                    and d['e'].get('__recv__'):
                return d['e']['e']
            if k == 'this':
                return {'k': 'un', 'op': '&', 'e': recv, '__recv__': True}
            if k == 'member' and isinstance(d.get('base'), dict) and d['base'].get('__recv__'):
                return dict(d, base=d['base']['e'])
        if isinstance(d.get('id'), int) and k in ('call', 'construct', 'new', 'delete', 'throw', 'lambda'):
            return dict(d, id=d['id'] + id_off)
        return d

    def rw_vars(vs):
        out = []
        for v in vs:
            v2 = dict(v)
            if isinstance(v2.get('did'), int):
                v2['did'] = v2['did'] + did_off
            if isinstance(v2.get('init'), (dict, list)):
                v2['init'] = _walk_terms(v2['init'], rewrite)
            out.append(v2)
        return out

    # ---- returned value
    rets = [(b['id'], i) for b in callee.blocks.values() for i, e in enumerate(b['events']) if e['ev'] == 'return' and e.get('e') is not None]
    void = callee.rec.get('ret') in ('void', None) or not rets
    ret_did = did_off + 999
    ret_name = '%s__ret%d' % (callee.short, serial)
    ret_t = callee.rec.get('ret', '')
    ret_local = {'k': 'local', 'did': ret_did, 'name': ret_name, 't': ret_t}
    single = len(rets) == 1
    inherit = {k: call_ev[k] for k in ('try', 'in_handler') if k in call_ev}
    if not void and not single:
        pre_events.append(dict({'ev': 'decl', 'loc': call.get('loc', ''), 'vars': [{'did': ret_did, 'name': ret_name, 't': ret_t}]}, **{k: v for k, v in inherit.items() if k == 'in_handler'}))

    # ---- callee blocks
    new_blocks = {}     # label -> block dict
    B = caller.blocks[bid]
    lab1, lab2 = ('c', bid), ('c2', bid)

    def clabel(x):
        if x is None:
            return None
        if x == callee.exit:
            return lab2
        return ('h', x)

    for cb in callee.blocks.values():
        if cb['id'] == callee.exit:
            continue
        evs = []
        for e in cb['events']:
            e2 = {}
            for k, v in e.items():
                if k == 'vars':
                    e2[k] = rw_vars(v)
                elif isinstance(v, (dict, list)):
                    e2[k] = _walk_terms(v, rewrite)
                else:
                    e2[k] = v
            if e2['ev'] == 'dtor' and isinstance(e2.get('did'), int) and e2['did'] in own_dids:
                e2['did'] = e2['did'] + did_off
            if e2['ev'] == 'return':
                if void or e2.get('e') is None:
                    continue
                if single:
                    e2 = {'ev': 'decl', 'loc': e2.get('loc', ''), 'vars': [{'did': ret_did, 'name': ret_name, 't': ret_t, 'init': e2['e']}]}
                else:
                    e2 = {'ev': 'assign', 'op': '=', 'lhs': dict(ret_local), 'rhs': e2['e'], 'loc': e2.get('loc', '')}
            e2.update(inherit if e2['ev'] in ('expr', 'incdec', 'assign') else {k: v for k, v in inherit.items() if k == 'in_handler' and e2['ev'] in ('decl', 'return')})
            evs.append(e2)
        nb = {'id': ('h', cb['id']), 'events': evs, 'succ': [clabel(s) for s in cb['succ']]}
        if cb.get('term'):
            nb['term'] = _walk_terms(cb['term'], rewrite)
        if cb.get('noreturn'):
            nb['noreturn'] = True
        new_blocks[nb['id']] = nb

    # ---- caller blocks
    def replace_call(d):
        if d.get('k') == 'call' and d.get('id') == call.get('id') and d.get('key') == call.get('key'):
            return dict(ret_local) if not void else d
        return d

    def fix_event(e):
        e2 = {}
        for k, v in e.items():
            if k == 'vars':
                e2[k] = [dict(x, init=_walk_terms(x['init'], replace_call)) if isinstance(x.get('init'), (dict, list)) else x for x in v]
            elif isinstance(v, (dict, list)):
                e2[k] = _walk_terms(v, replace_call)
            else:
                e2[k] = v
        return e2

    for ob in caller.blocks.values():
        if ob['id'] == bid:
            b1 = {'id': lab1, 'events': [fix_event(e) for e in B['events'][:idx]] + pre_events, 'succ': [clabel(callee.entry)]}
            b2 = {k: v for k, v in B.items() if k not in ('id', 'events', 'succ', 'term')}
            b2.update({'id': lab2, 'events': [fix_event(e) for e in B['events'][idx + 1:]], 'succ': [('c', s) if s is not None else None for s in B['succ']]})
            if B.get('term'):
                b2['term'] = _walk_terms(B['term'], replace_call)
            b1.pop('noreturn', None)
            new_blocks[lab1] = b1
            new_blocks[lab2] = b2
        else:
            nb = {k: v for k, v in ob.items() if k not in ('id', 'events', 'succ', 'term')}
            nb.update({'id': ('c', ob['id']), 'events': [fix_event(e) for e in ob['events']], 'succ': [('c', s) if s is not None else None for s in ob['succ']]})
            if ob.get('term'):
                nb['term'] = _walk_terms(ob['term'], replace_call)
            new_blocks[nb['id']] = nb

    # ---- renumber: descending id ~ program order (clang numbers the entry highest)
    def order_key(lab):
        if lab[0] == 'c':
            return (lab[1], 9, 0)
        if lab[0] == 'c2':
            return (lab[1], 1, 0)
        return (bid, 5, lab[1])
    labs = sorted(new_blocks, key=order_key)
    num = {lab: i for i, lab in enumerate(labs)}
    blocks = []
    for lab in labs:
        nb = new_blocks[lab]
        nb['id'] = num[lab]
        nb['succ'] = [num[s] if s is not None else None for s in nb['succ']]
        blocks.append(nb)
    rec = {k: v for k, v in caller.rec.items() if k != 'blocks'}
    rec['blocks'] = blocks
    rec['entry'] = num[('c', caller.entry)] if caller.entry != bid else num[lab1]
    rec['exit'] = num[('c', caller.exit)] if caller.exit != bid else num[lab2]
    rec['inlined'] = list(caller.rec.get('inlined', [])) + [callee.key]
    return rec


def inline_helpers(db, log=None):
    """replace calls of transparent helpers in every library function; returns the number of call sites inlined"""
    words = rule_words()
    total = 0
    names = set()
    for key in list(db.fns):
        f = db.fns[key]
        # library functions: by namespace, or (file-local helpers in unnamed namespaces) by where they are defined
        if f.pattern or not f.blocks or not (f.name.startswith('foonathan::memory') or str(f.loc).startswith(_repo_root())):
            continue
        serial = len(f.rec.get('inlined', []))
        rounds = 0
        changed = True
        while changed and rounds < MAX_ROUNDS * 4:
            changed = False
            for bid in sorted(f.blocks, reverse=True):
                for idx, e in enumerate(f.blocks[bid]['events']):
                    t = e.get('e') if e['ev'] == 'expr' else None
                    if not (isinstance(t, dict) and t.get('k') == 'call'):
                        continue
                    callee = db.fns.get(t.get('key'))
                    if not transparent(f, callee, words):
                        continue
                    if f.rec.get('inlined', []).count(callee.key) >= MAX_ROUNDS:
                        continue
                    rec = inline_one(f, bid, idx, callee, serial)
                    if rec is None:
                        continue
                    nf = Fn(rec, f.config, f.tu)
                    _replace(db, f, nf)
                    f = nf
                    serial += 1
                    total += 1
                    names.add(callee.short)
                    changed = True
                    break
                if changed:
                    break
            rounds += 1
    db.inlined_helpers = sorted(names)
    # a helper whose every call was replaced by its body is decided in its callers, with the arguments they pass: it is no longer a
    # function of its own for the rules (a remaining call - from a function outside the library, or one that could not be bound -
    # keeps it)
    inlined_keys = {k for f in db.fns.values() for k in f.rec.get('inlined', [])}
    still_called = set()
    for f in db.fns.values():
        if f.pattern:
            continue
        for b in f.blocks.values():
            for e in b['events']:
                t = e.get('e') if e['ev'] == 'expr' else None
                if isinstance(t, dict) and t.get('k') == 'call' and t.get('key') in inlined_keys:
                    still_called.add(t['key'])
    db.hidden = {}
    for k in inlined_keys - still_called:
        f = db.fns.pop(k, None)
        if f is None:
            continue
        db.hidden[k] = f
        for idx in (db.by_short.get(f.short, []), db.by_cls_t.get(f.cls_t, [])):
            idx[:] = [x for x in idx if x is not f]
    return total


def _replace(db, old, new):
    db.fns[old.key] = new
    for idx in (db.by_short.get(old.short, []), db.by_cls_t.get(old.cls_t, [])):
        for i, x in enumerate(idx):
            if x is old:
                idx[i] = new


_SELFTEST_DONE = [False]


def self_test():
    """the inliner on a tiny translation unit with known helpers: an unknown private / file-local helper must vanish from its
    callers (its writes appear in them), a helper the rules name must stay a call.  Raises AnalysisBroken otherwise."""
    if _SELFTEST_DONE[0]:
        return
    from . import fixtures, build, sym
    from .facts import top_term
    # spelled in two halves: a helper whose name occurred in this file would count as known to the rules
    BUMP, ROUND, RESET = 'zz_bump' + '_probe', 'zz_round' + '_probe', 'zz_reset' + '_probe'
    db = fixtures.load_fixture_db('inline_selftest.cpp', 'pinned')
    n = inline_helpers(db)
    by = {f.short: f for f in db.fns.values() if 'verif_inline_probe' in f.name}

    def calls(f):
        return {top_term(e).get('short') for e in f.events() if top_term(e) is not None and top_term(e).get('k') == 'call'}

    def writes(f):
        return {sym.canon(e['lhs']) for e in f.events() if e['ev'] in ('assign', 'incdec')}
    probs = []
    om, of_, ok_, oo = by.get('outer_member'), by.get('outer_free'), by.get('outer_known'), by.get('outer_other')
    if not (om and of_ and ok_ and oo):
        probs.append('probe functions not found')
    else:
        if BUMP in calls(om) or 'this.cur_' not in writes(om):
            probs.append('a private helper was not spliced into its caller (calls %s, writes %s)' % (sorted(calls(om)), sorted(writes(om))))
        if ROUND in calls(of_):
            probs.append('a file-local helper was not spliced into its caller')
        if 'block_end' not in calls(ok_):
            probs.append('a helper the rules name was inlined')
        if RESET in calls(oo) or not any(w.endswith('other.cur_') or w.endswith('.cur_') and not w.startswith('this.') for w in writes(oo)):
            probs.append('a helper called on another object was not spliced with that object as receiver (writes %s)' % sorted(writes(oo)))
        oo2 = by.get('outer_out')
        if oo2 is None or not any(w.startswith('local:v') for w in writes(oo2)):
            probs.append('a reference out-parameter of an inlined helper does not assign the caller\'s variable (writes %s)' % (sorted(writes(oo2)) if oo2 else None))
        oc = by.get('outer_closure')
        if oc is None or not any(w.startswith('local:acc') for w in writes(oc)) or 'operator()' in calls(oc):
            probs.append('a closure called in the function that defines it was not spliced in (calls %s, writes %s)' % (sorted(calls(oc)) if oc else None, sorted(writes(oc)) if oc else None))
        if BUMP in by or RESET in by:
            probs.append('fully inlined helpers are still functions of their own')
    if probs:
        raise build.AnalysisBroken('self-test of the helper inliner failed: ' + '; '.join(probs))
    _SELFTEST_DONE[0] = True
