"""Generic intraprocedural analyses over the extracted CFGs."""
from .facts import subterms, top_term, tstr


def forward_must(fn, init, transfer):
    """Forward *must* dataflow (meet = intersection of frozensets).
    transfer(state, event) -> state.   Returns (state_in_block, state_before_event{(block,idx)})."""
    reach = fn.reachable()
    TOP = None  # unvisited
    inb = {b: TOP for b in reach}
    inb[fn.entry] = frozenset(init)
    preds = fn.preds()
    work = [fn.entry]
    outb = {}
    while work:
        b = work.pop()
        st = inb[b]
        for e in fn.blocks[b]['events']:
            st = transfer(st, e)
        if outb.get(b) == st and b in outb:
            continue
        outb[b] = st
        for s in fn.blocks[b]['succ']:
            if s is None or s not in reach:
                continue
            ps = [outb[p] for p in preds[s] if p in outb]
            new = frozenset.intersection(*ps) if ps else frozenset()
            if inb[s] is TOP or new != inb[s]:
                inb[s] = new
                work.append(s)
            elif s not in outb:
                work.append(s)
    before = {}
    for b in reach:
        st = inb[b] if inb[b] is not TOP else frozenset()
        for e in fn.blocks[b]['events']:
            before[(b, e.idx)] = st
            st = transfer(st, e)
    return inb, before


def forward_may(fn, init, transfer):
    """Forward *may* dataflow (meet = union)."""
    reach = fn.reachable()
    inb = {b: frozenset() for b in reach}
    inb[fn.entry] = frozenset(init)
    work = [fn.entry]
    outb = {}
    while work:
        b = work.pop()
        st = inb[b]
        for e in fn.blocks[b]['events']:
            st = transfer(st, e)
        if b in outb and outb[b] == st:
            continue
        outb[b] = st
        for s in fn.blocks[b]['succ']:
            if s is None or s not in reach:
                continue
            new = inb[s] | st
            if new != inb[s] or s not in outb:
                inb[s] = new
                work.append(s)
    before = {}
    for b in reach:
        st = inb[b]
        for e in fn.blocks[b]['events']:
            before[(b, e.idx)] = st
            st = transfer(st, e)
    return inb, before


def must_pass_through(fn, pred, start_block=None, to_exit=True):
    """True iff every path from entry (or start_block) to the exit block contains an event e with pred(e).
    Paths that end in a noreturn block (abort/handle_failed_assert... ) are ignored."""
    start = fn.entry if start_block is None else start_block
    seen = set()
    st = [start]
    while st:
        b = st.pop()
        if b in seen or b is None:
            continue
        seen.add(b)
        blk = fn.blocks[b]
        if any(pred(e) for e in blk['events']):
            continue
        if b == fn.exit:
            return False
        if blk.get('noreturn'):
            continue
        st.extend(blk['succ'])
    return True


def events_matching(fn, pred):
    return [e for e in fn.events() if pred(e)]


def call_events(fn, pred=None):
    """(event, callterm) for each call/construct evaluated as its own CFG element"""
    for e in fn.events():
        t = top_term(e)
        if t is not None and t.get('k') in ('call', 'construct'):
            if pred is None or pred(t):
                yield e, t


def local_defs(fn):
    """did -> list of (event, init term) for local variable declarations"""
    out = {}
    for e in fn.events():
        if e['ev'] == 'decl':
            for v in e['vars']:
                out.setdefault(v['did'], []).append((e, v))
    return out


def mentions(t, pred):
    return any(pred(s) for s in subterms(t))
