// D4 (C12/C05, R-MOVE.4): iteration_allocator::operator=(&&) overwrites block_ without returning it to the block source.
#include <cstdio>
#include <foonathan/memory/iteration_allocator.hpp>
#include <foonathan/memory/tracking.hpp>
using namespace foonathan::memory;
static int allocs = 0, deallocs = 0;
struct counting_allocator
{
    using is_stateful = std::false_type;
    void* allocate_node(std::size_t size, std::size_t) { ++allocs; return ::operator new(size); }
    void  deallocate_node(void* p, std::size_t, std::size_t) noexcept { ++deallocs; ::operator delete(p); }
};
int main()
{
    {
        iteration_allocator<2, counting_allocator> a(1024), b(1024);
        a = std::move(b);
    }
    std::printf("blocks allocated %d, returned %d\n", allocs, deallocs);
    return allocs == deallocs ? 0 : 1;
}
