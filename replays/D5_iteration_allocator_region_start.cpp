// D5 (C07): the constructor places region i at i*(size/N), every later use takes block_start(i) = (i*size)/N.
// For i >= 2 and N not dividing size, block_start(i) lies ABOVE the constructor's start; the first next_iteration() into
// such a region "unwinds" the stack upwards: unwind(top) computes size_t(cur_ - top) < 0 -> debug_fill over ~2^64 bytes.
#include <cstdio>
#include <foonathan/memory/iteration_allocator.hpp>
#include <foonathan/memory/static_allocator.hpp>
using namespace foonathan::memory;
int main()
{
    for (std::size_t extra = 0; extra < 3; ++extra)
    {
        static_allocator_storage<4096> storage;
        // usable block size = 1024 + extra
        iteration_allocator<3, static_block_allocator> alloc(1024 + extra, storage);
        std::printf("block size %zu: capacity_left(0..2) after construction = %zu %zu %zu\n", std::size_t(1024 + extra), alloc.capacity_left(0), alloc.capacity_left(1),
                    alloc.capacity_left(2));
        std::fflush(stdout);
        alloc.next_iteration();
        alloc.next_iteration(); // into region 2
        std::printf("  region 2 after switching: capacity_left = %zu\n", alloc.capacity_left());
        std::fflush(stdout);
    }
    return 0;
}
