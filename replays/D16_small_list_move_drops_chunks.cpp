// D16 (C12, R-MOVE.6): small_free_memory_list move ctor / swap transfer the chunk list only `if (!other.empty())`;
// empty() means "no free node", not "no chunk".  A pool whose nodes are all handed out loses its chunks on move.
#include <cstdio>
#include <vector>
#include <csignal>
#include <unistd.h>
#include <foonathan/memory/memory_pool.hpp>
using namespace foonathan::memory;
static void on_alarm(int) { std::printf("deallocate_node on the new owner never returned (chunk search loops)\n"); std::fflush(stdout); _exit(1); }
int main()
{
    std::signal(SIGALRM, on_alarm);
    memory_pool<small_node_pool> pool(4, 4096);
    std::vector<void*> nodes;
    while (pool.capacity_left() > 0)
        nodes.push_back(pool.allocate_node());
    std::printf("allocated %zu nodes, capacity_left now %zu\n", nodes.size(), pool.capacity_left());
    std::fflush(stdout);
    memory_pool<small_node_pool> moved(std::move(pool));
    alarm(3);
    moved.deallocate_node(nodes.front());
    alarm(0);
    std::printf("deallocated through the new owner, capacity_left %zu\n", moved.capacity_left());
    for (std::size_t i = 1; i < nodes.size(); ++i)
        moved.deallocate_node(nodes[i]);
    return 0;
}
