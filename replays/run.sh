#!/bin/sh
# Development aid (not a registered check): compiles and runs one replay program against the pinned build of /repo.
# usage: replays/run.sh <file.cpp>   -- exit status of the program is printed
set -e
src="$1"
out=$(mktemp -d)
g++ -std=gnu++17 -g -w -I/repo/include -I/repo/_build/src "$src" /repo/_build/src/libfoonathan_memory-*.a -o "$out/a.out" -pthread
set +e
"$out/a.out"
echo "exit=$?"
rm -rf "$out"
