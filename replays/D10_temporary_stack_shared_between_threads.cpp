// D10a (C14): ~temporary_stack_initializer marks the thread's stack as free (in_use_ = false) but the thread keeps its
// pointer: the next thread that needs a stack adopts it while the first thread goes on using it.
// D10b (C14): at exit the list of stacks is only destroyed if the *main thread's* temp_stack pointer is non-null.
#include <cstdio>
#include <future>
#include <thread>
#include <foonathan/memory/temporary_allocator.hpp>
using namespace foonathan::memory;
int main()
{
    std::promise<void> a_cleared, b_done;
    temporary_stack *a_before = nullptr, *a_after = nullptr, *b_stack = nullptr;
    std::thread A([&] {
        {
            temporary_stack_initializer init(1024);
            a_before = &get_temporary_stack();
        } // initializer destroyed: stack marked unused
        a_cleared.set_value();
        b_done.get_future().wait();
        a_after = &get_temporary_stack(); // thread A is still alive and asks for its stack again
    });
    std::thread B([&] {
        a_cleared.get_future().wait();
        b_stack = &get_temporary_stack(); // adopts an unused stack if there is one
        temporary_allocator alloc;
        (void)alloc.allocate(16, 8);
        b_done.set_value();
        std::this_thread::sleep_for(std::chrono::milliseconds(50)); // B stays alive while A uses its stack
    });
    A.join();
    B.join();
    std::printf("A's stack %p (before) %p (after its initializer died); B's stack %p\n", (void*)a_before, (void*)a_after, (void*)b_stack);
    bool shared = (a_after == b_stack);
    std::printf(shared ? "two live threads use the same temporary stack\n" : "each live thread has its own stack\n");
    return shared ? 1 : 0;
}
