// D12 (C18): small_free_memory_list::min_block_size / usable_size ignore the alignment buffer that insert() puts between chunks.
// A pool built with min_block_size(node_size, n) holds fewer than n nodes when n is a multiple of 255 and the chunk size is not a multiple of 8.
#include <cstdio>
#include <foonathan/memory/memory_pool.hpp>
using namespace foonathan::memory;
int main()
{
    int bad = 0;
    for (std::size_t node_size : {1u, 3u, 5u, 8u})
        for (std::size_t n : {255u, 510u, 765u})
        {
            using pool_t = memory_pool<small_node_pool>;
            pool_t pool(node_size, pool_t::min_block_size(node_size, n));
            auto nodes = pool.capacity_left() / pool.node_size();
            std::printf("node_size %zu, min_block_size for %zu nodes -> pool holds %zu nodes%s\n", node_size, n, nodes, nodes < n ? "   <-- too few" : "");
            if (nodes < n)
                ++bad;
        }
    return bad ? 1 : 0;
}
