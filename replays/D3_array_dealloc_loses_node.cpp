// D3 (C04/C01, R-UNLINK): free_memory_list / ordered_free_memory_list allocate(n) take ceil(n / node_size) nodes,
// deallocate(ptr, n) gives back floor(n / node_size): every array cycle whose byte size is not a multiple of the node size loses a node.
#include <cstdio>
#include <foonathan/memory/memory_pool.hpp>
using namespace foonathan::memory;
int main()
{
    memory_pool<array_pool> pool(16, 4096);
    using traits = allocator_traits<decltype(pool)>;
    auto before = pool.capacity_left();
    for (int i = 0; i < 10; ++i)
    {
        void* p = traits::allocate_array(pool, 3, 12, 4); // 36 bytes = 3 nodes of 16
        traits::deallocate_array(pool, p, 3, 12, 4);
    }
    auto after = pool.capacity_left();
    std::printf("capacity_left before %zu, after 10 allocate/release cycles %zu\n", before, after);
    return before == after ? 0 : 1;
}
