// D8 (C09, W-width): allocator_polymorphic_deleter stores size/alignment as unsigned short.
// An object larger than 65535 bytes, owned through unique_base_ptr, is released with a truncated size.
#include <cstdio>
#include <foonathan/memory/smart_ptr.hpp>
#include <foonathan/memory/heap_allocator.hpp>
using namespace foonathan::memory;
struct recording_allocator
{
    using is_stateful = std::true_type;
    std::size_t allocated = 0, released = 0;
    void* allocate_node(std::size_t size, std::size_t) { allocated = size; return ::operator new(size); }
    void  deallocate_node(void* p, std::size_t size, std::size_t) noexcept { released = size; ::operator delete(p); }
};
struct base { virtual ~base() {} };
struct big : base { char data[70000]; };
int main()
{
    recording_allocator alloc;
    {
        auto p = allocate_unique<big>(alloc);
        unique_base_ptr<base, recording_allocator> b(std::move(p));
    }
    std::printf("allocated %zu, released %zu\n", alloc.allocated, alloc.released);
    return alloc.allocated == alloc.released ? 0 : 1;
}
