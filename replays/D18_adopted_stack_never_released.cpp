// D18 (C14): a thread that ADOPTS a temporary stack left behind by a finished thread never registers the thread-exit
// detector (it is only odr-used in the list node's constructor, i.e. when a NEW stack is created), so when the adopting
// thread exits the stack stays marked in use for ever: it is neither reused nor released until program exit.
// Sequential threads that each use a temporary_allocator must all end up on the same stack.
// exit status 0 = all threads reused one stack, 1 = stacks of finished threads were left behind.
#include <foonathan/memory/temporary_allocator.hpp>
#include <cstdio>
#include <set>
#include <thread>

namespace mem = foonathan::memory;

int main()
{
    std::set<void*> stacks;
    for (int i = 0; i < 6; ++i)
    {
        void* s = nullptr;
        std::thread t([&] {
            mem::temporary_allocator alloc;          // uses get_temporary_stack()
            alloc.allocate(64, 8);
            s = &mem::get_temporary_stack();
        });
        t.join();                                    // the thread has finished before the next one starts
        std::printf("thread %d used temporary stack %p\n", i, s);
        stacks.insert(s);
    }
    std::printf("%zu distinct stack(s) for 6 sequential threads\n", stacks.size());
    return stacks.size() == 1 ? 0 : 1;
}
