// D17 (C12): memory_pool::operator=(&&) (and memory_pool_collection::operator=(&&)) assign arena_ first - which returns the
// target's old blocks to the block source - and the free list afterwards; the free list's move assignment (tmp + swap)
// relinks the old nodes, which live in the blocks that were just released: writes into freed memory.
// Build with AddressSanitizer: replays/run_asan.sh replays/D17_pool_move_assign_writes_freed_blocks.cpp
#include <cstdio>
#include <foonathan/memory/memory_pool.hpp>
using namespace foonathan::memory;
int main()
{
    memory_pool<array_pool> a(16, 4096), b(16, 4096);
    void* pa = a.allocate_node();
    a.deallocate_node(pa);     // a owns a block and a non-empty free list
    void* pb = b.allocate_node();
    a = std::move(b);          // old block of a is freed, then its nodes are relinked
    a.deallocate_node(pb);
    std::printf("move assignment done\n");
    return 0;
}
