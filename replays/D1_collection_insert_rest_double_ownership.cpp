// D1 (C01/C03, R-CONSUME): memory_pool_collection::insert_rest puts the block remainder on a free list but leaves it
// inside the bump stack; the same bytes are handed out again (to another pool), and try_allocate_node never returns
// null on an exhausted fixed block.
#include <cstdio>
#include <cstdint>
#include <vector>
#include <foonathan/memory/memory_pool_collection.hpp>
#include <foonathan/memory/static_allocator.hpp>
using namespace foonathan::memory;
int main()
{
    static_allocator_storage<4096> storage;
    using pool_t = memory_pool_collection<node_pool, identity_buckets, static_block_allocator>;
    pool_t pool(64, 4096, storage);
    struct range { std::uintptr_t b, e; };
    std::vector<range> live;
    std::size_t sizes[] = {8, 24, 40, 56, 16, 32, 48, 64};
    int overlaps = 0, served = 0;
    for (int round = 0; round < 400 && !overlaps; ++round)
    {
        auto sz = sizes[round % 8];
        void* p = pool.try_allocate_node(sz);
        if (!p)
            continue;
        ++served;
        range r{reinterpret_cast<std::uintptr_t>(p), reinterpret_cast<std::uintptr_t>(p) + sz};
        for (auto& o : live)
            if (r.b < o.e && o.b < r.e)
            {
                std::printf("allocation %d [%#lx,%#lx) of size %zu overlaps live allocation [%#lx,%#lx)\n", served,
                            (unsigned long)r.b, (unsigned long)r.e, sz, (unsigned long)o.b, (unsigned long)o.e);
                ++overlaps;
                break;
            }
        live.push_back(r);
    }
    std::size_t total = 0;
    for (auto& r : live) total += r.e - r.b;
    std::printf("served %d nodes, %zu bytes in total out of one 4096 byte block, overlaps: %d\n", served, total, overlaps);
    return (overlaps || total > 4096) ? 1 : 0;
}
