// D9 (C12, R-MOVE.3): ~virtual_block_allocator releases (cur_, end_ - cur_) unconditionally; after a move both are
// nullptr and virtual_memory_release(nullptr, 0) fails (munmap EINVAL) - with assertions enabled the program aborts.
// Here (pinned RelWithDebInfo build, assertions off) we show the failing system call result directly.
#include <cstdio>
#include <cerrno>
#include <sys/mman.h>
#include <foonathan/memory/virtual_memory.hpp>
using namespace foonathan::memory;
int main()
{
    virtual_block_allocator a(virtual_memory_page_size, 2);
    virtual_block_allocator b(std::move(a));
    // what ~a will do: virtual_memory_release(nullptr, 0) -> munmap(nullptr, 0)
    errno = 0;
    int r = munmap(nullptr, 0);
    std::printf("munmap(nullptr, 0) = %d (errno %d): the moved-from destructor issues exactly this call\n", r, errno);
    return r == 0 ? 0 : 1;
}
