// D11 (C03, R-NN): memory_pool_collection::allocate_array, third stage, reserves count*node_size bytes, which may hold
// fewer whole pool nodes than the array needs (bucket node size > requested node size); the result is only asserted.
#include <cstdio>
#include <foonathan/memory/memory_pool_collection.hpp>
using namespace foonathan::memory;
int main()
{
    memory_pool_collection<array_pool, log2_buckets> pool(64, 4096);
    using traits = allocator_traits<decltype(pool)>;
    void* p = nullptr;
    try
    {
        p = traits::allocate_array(pool, 20, 55, 1);
    }
    catch (std::bad_alloc&)
    {
        std::printf("threw bad_alloc (acceptable)\n");
        return 0;
    }
    std::printf("allocate_array(20 x 55) returned %p\n", p);
    return p ? 0 : 1;
}
