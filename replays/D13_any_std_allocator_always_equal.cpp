// D13 (C10, R-EQ; KNOWN FINDING, not repaired): std_allocator<T, any_allocator>::operator== dispatches on
// allocator_traits<any_allocator>::is_stateful (any_allocator is an empty tag => "stateless") and returns true for
// references to different allocators.
#include <cstdio>
#include <foonathan/memory/memory_pool.hpp>
#include <foonathan/memory/std_allocator.hpp>
using namespace foonathan::memory;
int main()
{
    memory_pool<> a(16, 1024), b(16, 1024);
    any_std_allocator<int> x = make_any_std_allocator<int>(a);
    any_std_allocator<int> y = make_any_std_allocator<int>(b);
    bool eq = (x == y);
    std::printf("two any_std_allocator<int> bound to two different pools compare %s\n", eq ? "EQUAL" : "unequal");
    return eq ? 1 : 0;
}
