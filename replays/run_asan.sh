#!/bin/sh
# Development aid: compile the library sources and one replay with AddressSanitizer (pinned configuration headers) and run it.
set -e
src="$1"; out=$(mktemp -d)
clang++ -std=gnu++17 -g -w -fsanitize=address -fno-omit-frame-pointer -I/repo/include -I/repo/include/foonathan/memory -I/repo/_build/src \
  -DFOONATHAN_MEMORY=1 -DFOONATHAN_MEMORY_VERSION_MAJOR=0 -DFOONATHAN_MEMORY_VERSION_MINOR=7 -DFOONATHAN_MEMORY_VERSION_PATCH=4 \
  "$src" $(find /repo/src -name '*.cpp') -o "$out/a.out" -pthread
set +e
"$out/a.out" 2>&1 | grep -E "ERROR: AddressSanitizer|SUMMARY|#[0-9] .*foonathan|move assignment done" | head -12
echo "exit=$?"
rm -rf "$out"
