// D15 (C20, R-GUARD-ARMED): joint_array<T>::builder gives the joint-stack space back only `if (size_)`.
// When the constructor of element 0 throws, size_ is still 0 and the space stays allocated.
#include <cstdio>
#include <new>
#include <foonathan/memory/joint_allocator.hpp>
#include <foonathan/memory/heap_allocator.hpp>
using namespace foonathan::memory;
static int throw_at = -1, constructed = 0;
struct thrower
{
    thrower() { if (constructed == throw_at) throw 42; ++constructed; }
    ~thrower() {}
    int v[2];
};
struct owner : joint_type<owner>
{
    std::size_t before = 0, after = 0;
    owner(joint j) : joint_type<owner>(j)
    {
        joint_allocator probe(*this);
        alignas(joint_array<thrower>) char buf[sizeof(joint_array<thrower>)];
        before = detail::get_stack(*this).capacity_left();
        try
        {
            auto* arr = ::new (buf) joint_array<thrower>(4, *this);
            arr->~joint_array<thrower>();
        }
        catch (int)
        {
        }
        after = detail::get_stack(*this).capacity_left();
        (void)probe;
    }
};
int main()
{
    int rc = 0;
    for (int k = 0; k < 3; ++k)
    {
        throw_at = k; constructed = 0;
        auto p = allocate_joint<owner>(heap_allocator{}, joint_size(256));
        std::printf("element %d throws: joint capacity before %zu, after %zu\n", k, p->before, p->after);
        if (p->before != p->after) rc = 1;
    }
    return rc;
}
