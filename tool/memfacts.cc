// memfacts: libTooling fact extractor for the /verif rule engine.
//
// For every function *definition* (including implicit template instantiations and
// lambda call operators) that lives in namespace foonathan::memory, or in a file
// under one of the --root prefixes, it writes one JSON object per line:
//   {"rec":"fn", ...identity..., "blocks":[{id, succ, events, term}]}
// and for every class definition in scope
//   {"rec":"class", name, fields, bases, methods(with noexcept), ...}
// The extractor contains no rule. Rules live in /verif/engine (Python).
//
// Build: see /verif/tool/Makefile.

#include "clang/AST/ASTConsumer.h"
#include "clang/AST/ASTContext.h"
#include "clang/AST/DeclCXX.h"
#include "clang/AST/DeclTemplate.h"
#include "clang/AST/ExprCXX.h"
#include "clang/AST/ParentMap.h"
#include "clang/AST/RecursiveASTVisitor.h"
#include "clang/AST/StmtCXX.h"
#include "clang/Analysis/CFG.h"
#include "clang/Frontend/CompilerInstance.h"
#include "clang/Frontend/FrontendAction.h"
#include "clang/Sema/Sema.h"
#include "clang/Tooling/CommonOptionsParser.h"
#include "clang/Tooling/Tooling.h"
#include "llvm/Support/CommandLine.h"
#include "llvm/Support/JSON.h"
#include "llvm/Support/raw_ostream.h"

#include <map>
#include <set>
#include <string>

using namespace clang;
using namespace clang::tooling;
namespace json = llvm::json;

static llvm::cl::OptionCategory Cat("memfacts options");
static llvm::cl::opt<std::string> OutFile("o", llvm::cl::desc("output file (jsonl)"),
                                          llvm::cl::Required, llvm::cl::cat(Cat));
static llvm::cl::list<std::string> Roots("root",
                                         llvm::cl::desc("path prefix whose functions are in scope"),
                                         llvm::cl::cat(Cat));
static llvm::cl::opt<bool> Patterns("patterns",
                                    llvm::cl::desc("also emit uninstantiated template patterns"),
                                    llvm::cl::cat(Cat));

namespace
{
    struct Extractor
    {
        ASTContext&        Ctx;
        Sema&              S;
        llvm::raw_ostream& OS;
        PrintingPolicy     PP;

        std::map<const Decl*, int> ids;
        std::map<const Stmt*, int> eids; // ids of call/construct/new nodes within one function
        int                        nextEid = 0;
        unsigned                   nFns = 0, nClasses = 0;

        Extractor(ASTContext& C, Sema& S, llvm::raw_ostream& OS)
        : Ctx(C), S(S), OS(OS), PP(C.getLangOpts())
        {
            PP.SuppressTagKeyword     = true;
            PP.SuppressUnwrittenScope = true;
            PP.Bool                   = true;
            PP.FullyQualifiedName     = true;
            PP.PrintCanonicalTypes    = true;
        }

        int idOf(const Decl* D)
        {
            auto it = ids.find(D);
            if (it != ids.end())
                return it->second;
            int n  = (int)ids.size() + 1;
            ids[D] = n;
            return n;
        }

        std::string typeStr(QualType T)
        {
            if (T.isNull())
                return "<null>";
            return T.getAsString(PP);
        }

        std::string locStr(SourceLocation L)
        {
            auto& SM = Ctx.getSourceManager();
            if (L.isInvalid())
                return "";
            L          = SM.getExpansionLoc(L);
            auto PL    = SM.getPresumedLoc(L);
            if (PL.isInvalid())
                return "";
            return std::string(PL.getFilename()) + ":" + std::to_string(PL.getLine());
        }

        std::string fileOf(SourceLocation L)
        {
            auto& SM = Ctx.getSourceManager();
            if (L.isInvalid())
                return "";
            L       = SM.getExpansionLoc(L);
            auto PL = SM.getPresumedLoc(L);
            if (PL.isInvalid())
                return "";
            return PL.getFilename();
        }

        std::string qualName(const NamedDecl* D)
        {
            std::string        s;
            llvm::raw_string_ostream os(s);
            D->getNameForDiagnostic(os, PP, true);
            return os.str();
        }

        std::string shortName(const NamedDecl* D)
        {
            if (auto* FD = dyn_cast<FunctionDecl>(D))
            {
                if (isa<CXXConstructorDecl>(FD))
                    return "<ctor>";
                if (isa<CXXDestructorDecl>(FD))
                    return "<dtor>";
                if (isa<CXXConversionDecl>(FD))
                    return "<conv>";
                if (FD->isOverloadedOperator())
                    return std::string("operator") + getOperatorSpelling(FD->getOverloadedOperator());
            }
            if (D->getDeclName().isIdentifier())
                return D->getName().str();
            return D->getDeclName().getAsString();
        }

        // ---- exception specs
        // returns "yes" (noexcept), "no" (may throw), "unknown"
        std::string nothrowOf(const FunctionDecl* FD, SourceLocation at)
        {
            if (!FD)
                return "unknown";
            auto* FPT = FD->getType()->getAs<FunctionProtoType>();
            if (!FPT)
                return "unknown";
            if (isUnresolvedExceptionSpec(FPT->getExceptionSpecType()))
            {
                FPT = S.ResolveExceptionSpec(at.isValid() ? at : FD->getLocation(), FPT);
                if (!FPT)
                    return "unknown";
            }
            switch (FPT->canThrow())
            {
            case CT_Cannot:
                return "yes";
            case CT_Can:
                return "no";
            case CT_Dependent:
                return "unknown";
            }
            return "unknown";
        }

        bool derivesFromBadAlloc(QualType T)
        {
            T = T.getNonReferenceType().getUnqualifiedType();
            auto* RD = T->getAsCXXRecordDecl();
            if (!RD || !RD->hasDefinition())
                return false;
            RD = RD->getDefinition();
            if (RD->getQualifiedNameAsString() == "std::bad_alloc")
                return true;
            for (auto& B : RD->bases())
                if (derivesFromBadAlloc(B.getType()))
                    return true;
            return false;
        }

        // ---- terms
        json::Value T(const Expr* E)
        {
            if (!E)
                return nullptr;
            // strip transparent wrappers
            for (;;)
            {
                if (auto* P = dyn_cast<ParenExpr>(E))
                    E = P->getSubExpr();
                else if (auto* C = dyn_cast<ExprWithCleanups>(E))
                    E = C->getSubExpr();
                else if (auto* M = dyn_cast<MaterializeTemporaryExpr>(E))
                    E = M->getSubExpr();
                else if (auto* B = dyn_cast<CXXBindTemporaryExpr>(E))
                    E = B->getSubExpr();
                else if (auto* C2 = dyn_cast<ConstantExpr>(E))
                    E = C2->getSubExpr();
                else if (auto* O = dyn_cast<OpaqueValueExpr>(E))
                {
                    if (!O->getSourceExpr())
                        break;
                    E = O->getSourceExpr();
                }
                else if (auto* D = dyn_cast<CXXDefaultArgExpr>(E))
                    E = D->getExpr();
                else if (auto* DI = dyn_cast<CXXDefaultInitExpr>(E))
                    E = DI->getExpr();
                else if (auto* SI = dyn_cast<CXXStdInitializerListExpr>(E))
                    E = SI->getSubExpr();
                else
                    break;
            }

            if (auto* IC = dyn_cast<ImplicitCastExpr>(E))
            {
                auto       CK  = IC->getCastKind();
                const Expr* Sub = IC->getSubExpr();
                if (CK == CK_IntegralCast)
                {
                    QualType from = Sub->getType(), to = IC->getType();
                    if (from->isIntegerType() && to->isIntegerType()
                        && Ctx.getTypeSize(to) < Ctx.getTypeSize(from))
                    {
                        return json::Object{{"k", "cast"},
                                            {"implicit", true},
                                            {"narrow", true},
                                            {"to", typeStr(to)},
                                            {"bits", (int64_t)Ctx.getTypeSize(to)},
                                            {"e", T(Sub)}};
                    }
                }
                if (CK == CK_UserDefinedConversion || CK == CK_ConstructorConversion)
                    return T(Sub);
                return T(Sub);
            }

            if (auto* SN = dyn_cast<SubstNonTypeTemplateParmExpr>(E))
            {
                json::Object o{{"k", "tparam"}, {"name", SN->getParameter()->getName().str()}};
                Expr::EvalResult R;
                if (SN->getReplacement()->EvaluateAsInt(R, Ctx))
                    o["v"] = R.Val.getInt().getExtValue();
                else
                    o["e"] = T(SN->getReplacement());
                return std::move(o);
            }

            if (auto* DRE = dyn_cast<DeclRefExpr>(E))
                return declRef(DRE->getDecl(), DRE);

            if (auto* ME = dyn_cast<MemberExpr>(E))
            {
                auto*        MD = ME->getMemberDecl();
                json::Object o{{"k", "member"}, {"name", shortName(MD)}, {"base", T(ME->getBase())}};
                if (auto* RD = dyn_cast<CXXRecordDecl>(MD->getDeclContext()))
                    o["cls"] = qualName(RD);
                if (auto* VD = dyn_cast<VarDecl>(MD)) // static data member accessed through object
                    return declRef(VD, nullptr);
                o["t"] = typeStr(ME->getType());
                return std::move(o);
            }
            if (isa<CXXThisExpr>(E))
                return json::Object{{"k", "this"}};
            if (auto* IL = dyn_cast<IntegerLiteral>(E))
                return json::Object{{"k", "lit"}, {"v", (int64_t)IL->getValue().getLimitedValue()}};
            if (auto* BL = dyn_cast<CXXBoolLiteralExpr>(E))
                return json::Object{{"k", "lit"}, {"v", BL->getValue()}, {"bool", true}};
            if (isa<CXXNullPtrLiteralExpr>(E) || isa<GNUNullExpr>(E))
                return json::Object{{"k", "lit"}, {"v", 0}, {"null", true}};
            if (auto* CL = dyn_cast<CharacterLiteral>(E))
                return json::Object{{"k", "lit"}, {"v", (int64_t)CL->getValue()}};
            if (auto* SL = dyn_cast<StringLiteral>(E))
                return json::Object{{"k", "str"},
                                    {"v", SL->isAscii() ? SL->getString().str() : std::string("?")}};
            if (isa<FloatingLiteral>(E))
                return json::Object{{"k", "lit"}, {"float", true}};
            if (isa<CXXScalarValueInitExpr>(E) || isa<ImplicitValueInitExpr>(E))
            {
                json::Object o{{"k", "lit"}, {"v", 0}, {"valueinit", true}};
                if (E->getType()->isPointerType())
                    o["null"] = true;
                return std::move(o);
            }

            if (auto* UE = dyn_cast<UnaryExprOrTypeTraitExpr>(E))
            {
                json::Object o{{"k", UE->getKind() == UETT_SizeOf ? "sizeof" : "alignof"}};
                QualType     AT = UE->isArgumentType() ? UE->getArgumentType()
                                                       : UE->getArgumentExpr()->getType();
                o["t"]          = typeStr(AT);
                Expr::EvalResult R;
                if (!E->isValueDependent() && E->EvaluateAsInt(R, Ctx))
                    o["v"] = R.Val.getInt().getExtValue();
                return std::move(o);
            }
            if (auto* UO = dyn_cast<UnaryOperator>(E))
                return json::Object{{"k", "un"},
                                    {"op", UnaryOperator::getOpcodeStr(UO->getOpcode()).str()
                                               + (UO->isPostfix() ? "post" : "")},
                                    {"e", T(UO->getSubExpr())}};
            if (auto* BO = dyn_cast<BinaryOperator>(E))
            {
                json::Object o{{"k", "bin"},
                               {"op", BO->getOpcodeStr().str()},
                               {"l", T(BO->getLHS())},
                               {"r", T(BO->getRHS())}};
                if (BO->getLHS()->getType()->isPointerType())
                    o["lptr"] = true;
                if (BO->getRHS()->getType()->isPointerType())
                    o["rptr"] = true;
                // arithmetic carried out in an unsigned type: a subtraction can wrap
                if (BO->isAdditiveOp() && !BO->getType()->isDependentType()
                    && BO->getType()->isUnsignedIntegerType())
                    o["uns"] = true;
                return std::move(o);
            }
            if (auto* CO = dyn_cast<ConditionalOperator>(E))
                return json::Object{{"k", "cond"},
                                    {"c", T(CO->getCond())},
                                    {"t", T(CO->getTrueExpr())},
                                    {"f", T(CO->getFalseExpr())}};
            if (auto* AS = dyn_cast<ArraySubscriptExpr>(E))
                return json::Object{{"k", "bin"}, {"op", "[]"}, {"l", T(AS->getLHS())}, {"r", T(AS->getRHS())}};

            if (auto* CE = dyn_cast<CallExpr>(E))
                return callTerm(CE);
            if (auto* CC = dyn_cast<CXXConstructExpr>(E))
                return constructTerm(CC);
            if (auto* IL = dyn_cast<CXXInheritedCtorInitExpr>(E))
            {
                json::Object o{{"k", "construct"}, {"inherited", true}};
                o["type"] = typeStr(IL->getType());
                o["id"]   = eid(E);
                return std::move(o);
            }
            if (auto* NE = dyn_cast<CXXNewExpr>(E))
            {
                json::Object o{{"k", "new"}, {"type", typeStr(NE->getAllocatedType())}, {"id", eid(E)}};
                json::Array  pl;
                for (unsigned i = 0; i < NE->getNumPlacementArgs(); ++i)
                    pl.push_back(T(NE->getPlacementArg(i)));
                o["placement"] = std::move(pl);
                if (auto* ON = NE->getOperatorNew())
                {
                    o["reserved_placement"] = ON->isReservedGlobalPlacementOperator();
                    o["opnew_noexcept"]     = nothrowOf(ON, E->getExprLoc());
                }
                if (NE->isArray())
                    o["array"] = NE->getArraySize() ? T(*NE->getArraySize()) : json::Value(nullptr);
                if (NE->getInitializer())
                    o["init"] = T(NE->getInitializer());
                if (auto* CE2 = NE->getConstructExpr())
                    o["ctor_noexcept"] = nothrowOf(CE2->getConstructor(), E->getExprLoc());
                else
                    o["ctor_noexcept"] = "yes";
                o["loc"] = locStr(E->getExprLoc());
                return std::move(o);
            }
            if (auto* DE = dyn_cast<CXXDeleteExpr>(E))
                return json::Object{{"k", "delete"}, {"e", T(DE->getArgument())}, {"id", eid(E)},
                                    {"loc", locStr(E->getExprLoc())}};
            if (auto* TE = dyn_cast<CXXThrowExpr>(E))
            {
                json::Object o{{"k", "throw"}, {"id", eid(E)}, {"loc", locStr(E->getExprLoc())}};
                if (TE->getSubExpr())
                {
                    o["e"]         = T(TE->getSubExpr());
                    o["type"]      = typeStr(TE->getSubExpr()->getType());
                    o["bad_alloc"] = derivesFromBadAlloc(TE->getSubExpr()->getType());
                }
                else
                    o["rethrow"] = true;
                return std::move(o);
            }
            if (auto* EC = dyn_cast<ExplicitCastExpr>(E))
            {
                json::Object o{{"k", "cast"}, {"to", typeStr(EC->getType())}, {"e", T(EC->getSubExpr())}};
                QualType     from = EC->getSubExpr()->getType(), to = EC->getType();
                if (from->isIntegerType() && to->isIntegerType())
                {
                    o["bits"] = (int64_t)Ctx.getTypeSize(to);
                    if (Ctx.getTypeSize(to) < Ctx.getTypeSize(from))
                        o["narrow"] = true;
                }
                if (to->isVoidType())
                    o["void"] = true;
                return std::move(o);
            }
            if (auto* LE = dyn_cast<LambdaExpr>(E))
            {
                json::Object o{{"k", "lambda"}};
                if (auto* CO = LE->getCallOperator())
                    o["fn"] = fnKey(CO);
                return std::move(o);
            }
            if (auto* IL = dyn_cast<InitListExpr>(E))
            {
                json::Array a;
                for (auto* I : IL->inits())
                    a.push_back(T(I));
                return json::Object{{"k", "initlist"}, {"type", typeStr(IL->getType())}, {"elts", std::move(a)}};
            }
            if (auto* NX = dyn_cast<CXXNoexceptExpr>(E))
            {
                json::Object o{{"k", "noexcept_expr"}, {"e", T(NX->getOperand())}};
                if (!NX->isValueDependent())
                    o["v"] = NX->getValue();
                return std::move(o);
            }
            if (auto* DS = dyn_cast<CXXDependentScopeMemberExpr>(E))
            {
                json::Object o{{"k", "dep"}, {"name", DS->getMember().getAsString()}};
                if (!DS->isImplicitAccess())
                    o["base"] = T(DS->getBase());
                return std::move(o);
            }
            if (auto* UL = dyn_cast<UnresolvedLookupExpr>(E))
                return json::Object{{"k", "dep"}, {"name", UL->getName().getAsString()}};
            if (auto* UM = dyn_cast<UnresolvedMemberExpr>(E))
            {
                json::Object o{{"k", "dep"}, {"name", UM->getMemberName().getAsString()}};
                if (!UM->isImplicitAccess())
                    o["base"] = T(UM->getBase());
                return std::move(o);
            }
            if (auto* DD = dyn_cast<DependentScopeDeclRefExpr>(E))
            {
                std::string q;
                llvm::raw_string_ostream qs(q);
                if (DD->getQualifier())
                    DD->getQualifier()->print(qs, PP);
                return json::Object{{"k", "dep"}, {"name", DD->getDeclName().getAsString()}, {"qual", qs.str()}};
            }
            if (auto* UC = dyn_cast<CXXUnresolvedConstructExpr>(E))
            {
                json::Array a;
                for (auto* A : UC->arguments())
                    a.push_back(T(A));
                return json::Object{{"k", "dep"}, {"name", "<construct>"},
                                    {"type", typeStr(UC->getTypeAsWritten())}, {"args", std::move(a)}};
            }
            if (auto* TT = dyn_cast<TypeTraitExpr>(E))
            {
                json::Object o{{"k", "typetrait"}};
                if (!TT->isValueDependent())
                    o["v"] = TT->getValue();
                return std::move(o);
            }
            if (auto* PD = dyn_cast<CXXPseudoDestructorExpr>(E))
                return json::Object{{"k", "pseudo_dtor"}, {"base", T(PD->getBase())}};

            // generic fallback
            json::Array ch;
            for (const Stmt* C : E->children())
                if (auto* CE2 = dyn_cast_or_null<Expr>(C))
                    ch.push_back(T(CE2));
            return json::Object{{"k", "other"}, {"cls", E->getStmtClassName()}, {"ch", std::move(ch)}};
        }

        int eid(const Stmt* E)
        {
            auto it = eids.find(E);
            if (it != eids.end())
                return it->second;
            int n   = ++nextEid;
            eids[E] = n;
            return n;
        }

        json::Value declRef(const ValueDecl* D, const DeclRefExpr* DRE)
        {
            if (auto* PV = dyn_cast<ParmVarDecl>(D))
            {
                return json::Object{{"k", "param"},
                                    {"i", (int64_t)PV->getFunctionScopeIndex()},
                                    {"name", PV->getName().str()},
                                    {"did", idOf(PV)},
                                    {"t", typeStr(PV->getType())}};
            }
            if (auto* VD = dyn_cast<VarDecl>(D))
            {
                if (VD->isLocalVarDecl() && !VD->isStaticLocal())
                    return json::Object{{"k", "local"},
                                        {"name", VD->getName().str()},
                                        {"did", idOf(VD)},
                                        {"t", typeStr(VD->getType())}};
                json::Object o{{"k", "global"}, {"name", qualName(VD)}, {"t", typeStr(VD->getType())}};
                if (VD->isStaticLocal())
                    o["static_local"] = true;
                if (VD->getTLSKind() != VarDecl::TLS_None)
                    o["tls"] = true;
                if (VD->getType().isConstQualified() || VD->isConstexpr())
                {
                    o["const"] = true;
                    const VarDecl* DefVD = nullptr;
                    const Expr*    Init  = VD->getAnyInitializer(DefVD);
                    if (Init && DefVD && !Init->isValueDependent() && !VD->getType()->isDependentType()
                        && VD->getType()->isIntegralOrEnumerationType())
                        if (auto* V = DefVD->evaluateValue())
                            if (V->isInt())
                                o["v"] = V->getInt().getExtValue();
                }
                return std::move(o);
            }
            if (auto* EC = dyn_cast<EnumConstantDecl>(D))
                return json::Object{{"k", "global"}, {"name", qualName(EC)}, {"const", true},
                                    {"v", EC->getInitVal().getExtValue()}};
            if (auto* FD = dyn_cast<FunctionDecl>(D))
                return json::Object{{"k", "fnref"}, {"name", qualName(FD)}};
            if (auto* NT = dyn_cast<NonTypeTemplateParmDecl>(D))
                return json::Object{{"k", "tparam"}, {"name", NT->getName().str()}};
            if (auto* FD2 = dyn_cast<FieldDecl>(D))
                return json::Object{{"k", "member"}, {"name", FD2->getName().str()}, {"base", json::Object{{"k", "this"}}}};
            if (auto* BD = dyn_cast<BindingDecl>(D))
                return json::Object{{"k", "local"}, {"name", BD->getName().str()}, {"did", idOf(BD)}};
            return json::Object{{"k", "declref"}, {"name", D->getDeclName().getAsString()}};
        }

        std::string fnKey(const FunctionDecl* FD)
        {
            // unique, stable-within-run key: qualified name + parameter types (+ loc for lambdas)
            std::string s = qualName(FD);
            s += "(";
            bool first = true;
            for (auto* P : FD->parameters())
            {
                if (!first)
                    s += ", ";
                first = false;
                s += typeStr(P->getType());
            }
            s += ")";
            if (auto* MD = dyn_cast<CXXMethodDecl>(FD))
            {
                if (MD->isConst())
                    s += " const";
                if (MD->getParent()->isLambda())
                    s += " @" + locStr(FD->getLocation());
            }
            return s;
        }

        void calleeInfo(json::Object& o, const FunctionDecl* FD, SourceLocation at)
        {
            if (!FD)
                return;
            o["callee"]   = qualName(FD);
            o["short"]    = shortName(FD);
            o["key"]      = fnKey(FD);
            o["noexcept"] = nothrowOf(FD, at);
            if (auto* MD = dyn_cast<CXXMethodDecl>(FD))
            {
                o["cls"] = qualName(MD->getParent());
                if (MD->isStatic())
                    o["static"] = true;
                if (MD->isVirtual())
                    o["virtual"] = true;
                if (MD->isConst())
                    o["constm"] = true;
            }
            else if (auto* NS = dyn_cast<NamespaceDecl>(FD->getDeclContext()->getEnclosingNamespaceContext()))
                o["ns"] = NS->getQualifiedNameAsString();
            if (FD->isNoReturn())
                o["noreturn"] = true;
            if (auto* Def = FD->getDefinition())
                (void)Def;
            o["ret"] = typeStr(FD->getReturnType());
        }

        json::Value callTerm(const CallExpr* CE)
        {
            json::Object o{{"k", "call"}, {"id", eid(CE)}, {"loc", locStr(CE->getExprLoc())}};
            const FunctionDecl* FD = CE->getDirectCallee();
            if (FD)
                calleeInfo(o, FD, CE->getExprLoc());
            else
            {
                o["indirect"] = true;
                o["fn"]       = T(CE->getCallee());
                // call through function pointer: noexcept from pointee type if known
                QualType CT = CE->getCallee()->getType();
                if (auto* PT = CT->getAs<PointerType>())
                    CT = PT->getPointeeType();
                if (auto* FPT = CT->getAs<FunctionProtoType>())
                    o["noexcept"] = FPT->isNothrow() ? "yes" : "no";
                else
                    o["noexcept"] = "unknown";
            }
            unsigned firstArg = 0;
            if (auto* MC = dyn_cast<CXXMemberCallExpr>(CE))
            {
                if (auto* Obj = MC->getImplicitObjectArgument())
                    o["recv"] = T(Obj);
                if (auto* ME = dyn_cast<MemberExpr>(MC->getCallee()->IgnoreParens()))
                    if (ME->hasQualifier())
                        o["qualified_call"] = true;
            }
            else if (auto* OC = dyn_cast<CXXOperatorCallExpr>(CE))
            {
                if (FD && isa<CXXMethodDecl>(FD) && !cast<CXXMethodDecl>(FD)->isStatic() && OC->getNumArgs() > 0)
                {
                    o["recv"] = T(OC->getArg(0));
                    firstArg  = 1;
                }
            }
            json::Array args;
            for (unsigned i = firstArg; i < CE->getNumArgs(); ++i)
                args.push_back(T(CE->getArg(i)));
            o["args"] = std::move(args);
            return std::move(o);
        }

        json::Value constructTerm(const CXXConstructExpr* CC)
        {
            auto*        CD = CC->getConstructor();
            json::Object o{{"k", "construct"}, {"id", eid(CC)}, {"loc", locStr(CC->getExprLoc())}};
            o["type"]     = typeStr(CC->getType());
            o["noexcept"] = nothrowOf(CD, CC->getExprLoc());
            o["key"]      = fnKey(CD);
            o["ctor"]     = CD->isCopyConstructor()      ? "copy"
                            : CD->isMoveConstructor()    ? "move"
                            : CD->isDefaultConstructor() ? "default"
                                                         : "other";
            if (CD->isTrivial())
                o["trivial"] = true;
            if (CC->isElidable())
                o["elidable"] = true;
            json::Array args;
            for (auto* A : CC->arguments())
                args.push_back(T(A));
            o["args"] = std::move(args);
            return std::move(o);
        }

        // ---- scope
        bool inScope(const Decl* D)
        {
            const DeclContext* DC = D->getDeclContext();
            // walk to namespace
            for (const DeclContext* C = DC; C; C = C->getParent())
            {
                if (auto* NS = dyn_cast<NamespaceDecl>(C))
                {
                    if (NS->getName() == "memory")
                        if (auto* P = dyn_cast_or_null<NamespaceDecl>(NS->getParent()))
                            if (P->getName() == "foonathan" && isa<TranslationUnitDecl>(P->getParent()))
                                return true;
                }
            }
            std::string f = fileOf(D->getLocation());
            for (auto& R : Roots)
                if (llvm::StringRef(f).startswith(R))
                    return true;
            return false;
        }

        // ---- functions
        bool isInteresting(const Stmt* St)
        {
            if (isa<CallExpr>(St) || isa<CXXConstructExpr>(St) || isa<CXXNewExpr>(St)
                || isa<CXXDeleteExpr>(St) || isa<DeclStmt>(St) || isa<ReturnStmt>(St)
                || isa<CXXThrowExpr>(St) || isa<CXXInheritedCtorInitExpr>(St))
                return true;
            if (auto* BO = dyn_cast<BinaryOperator>(St))
                return BO->isAssignmentOp();
            if (auto* UO = dyn_cast<UnaryOperator>(St))
                return UO->isIncrementDecrementOp();
            // `(void)&object;` - the idiom that odr-uses (and thereby instantiates) a thread_local object
            if (auto* CE = dyn_cast<ExplicitCastExpr>(St))
                return CE->getCastKind() == CK_ToVoid;
            return false;
        }

        json::Value eventOf(const Stmt* St)
        {
            if (auto* DS = dyn_cast<DeclStmt>(St))
            {
                json::Array vars;
                for (auto* D : DS->decls())
                    if (auto* VD = dyn_cast<VarDecl>(D))
                    {
                        json::Object v{{"name", VD->getName().str()}, {"did", idOf(VD)},
                                       {"t", typeStr(VD->getType())}};
                        if (VD->isStaticLocal())
                            v["static_local"] = true;
                        if (VD->getType()->isReferenceType())
                            v["ref"] = true;
                        if (VD->hasInit())
                            v["init"] = T(VD->getInit());
                        vars.push_back(std::move(v));
                    }
                return json::Object{{"ev", "decl"}, {"vars", std::move(vars)}, {"loc", locStr(St->getBeginLoc())}};
            }
            if (auto* RS = dyn_cast<ReturnStmt>(St))
            {
                json::Object o{{"ev", "return"}, {"loc", locStr(St->getBeginLoc())}};
                if (RS->getRetValue())
                    o["e"] = T(RS->getRetValue());
                return std::move(o);
            }
            auto* E = cast<Expr>(St);
            if (auto* BO = dyn_cast<BinaryOperator>(E))
                if (BO->isAssignmentOp())
                    return json::Object{{"ev", "assign"}, {"op", BO->getOpcodeStr().str()},
                                        {"lhs", T(BO->getLHS())}, {"rhs", T(BO->getRHS())},
                                        {"loc", locStr(E->getExprLoc())}};
            if (auto* UO = dyn_cast<UnaryOperator>(E))
                if (UO->isIncrementDecrementOp())
                    return json::Object{{"ev", "incdec"}, {"op", UnaryOperator::getOpcodeStr(UO->getOpcode()).str()},
                                        {"lhs", T(UO->getSubExpr())}, {"loc", locStr(E->getExprLoc())}};
            json::Value  t = T(E);
            json::Object o{{"ev", "expr"}, {"e", std::move(t)}};
            return std::move(o);
        }

        void emitFunction(const FunctionDecl* FD, bool pattern)
        {
            const Stmt* Body = FD->getBody();
            if (!Body)
                return;
            eids.clear();
            nextEid = 0;

            json::Object fn{{"rec", "fn"}};
            fn["fn"]       = qualName(FD);
            fn["key"]      = fnKey(FD);
            fn["short"]    = shortName(FD);
            fn["pattern"]  = pattern;
            fn["loc"]      = locStr(FD->getLocation());
            fn["noexcept"] = pattern ? "unknown" : nothrowOf(FD, FD->getLocation());
            fn["ret"]      = typeStr(FD->getReturnType());
            if (FD->isDefaulted())
                fn["defaulted"] = true;
            if (FD->getTemplateInstantiationPattern())
                fn["instantiated"] = true;
            std::string kind = "free";
            if (!FD->isExternallyVisible())
                fn["internal"] = true; // static / unnamed namespace: a helper of this translation unit only
            if (auto* MD = dyn_cast<CXXMethodDecl>(FD))
            {
                kind      = "method";
                fn["cls"] = qualName(MD->getParent());
                if (MD->isStatic())
                    fn["static"] = true;
                if (MD->isConst())
                    fn["constm"] = true;
                if (MD->isVirtual())
                    fn["virtual"] = true;
                if (MD->getAccess() == AS_private || MD->getAccess() == AS_protected)
                    fn["nonpublic"] = true;
                if (MD->getParent()->isLambda())
                {
                    kind = "lambda";
                    // enclosing function
                    const DeclContext* DC = MD->getParent()->getDeclContext();
                    while (DC && !isa<FunctionDecl>(DC))
                        DC = DC->getParent();
                    if (DC)
                        fn["parent_fn"] = fnKey(cast<FunctionDecl>(DC));
                    json::Array caps;
                    for (auto& C : MD->getParent()->captures())
                    {
                        json::Object c;
                        if (C.capturesThis())
                            c["this"] = true;
                        else if (C.capturesVariable())
                        {
                            c["name"] = C.getCapturedVar()->getName().str();
                            c["did"]  = idOf(C.getCapturedVar());
                            if (auto* PV = dyn_cast<ParmVarDecl>(C.getCapturedVar()))
                                c["param_i"] = (int64_t)PV->getFunctionScopeIndex();
                        }
                        c["byref"] = C.getCaptureKind() == LCK_ByRef;
                        caps.push_back(std::move(c));
                    }
                    fn["captures"] = std::move(caps);
                }
                if (auto* CD = dyn_cast<CXXConstructorDecl>(FD))
                    kind = CD->isMoveConstructor() ? "move-ctor" : CD->isCopyConstructor() ? "copy-ctor" : "ctor";
                else if (isa<CXXDestructorDecl>(FD))
                    kind = "dtor";
                else if (MD->isMoveAssignmentOperator())
                    kind = "move-assign";
                else if (MD->isCopyAssignmentOperator())
                    kind = "copy-assign";
            }
            fn["kind"] = kind;
            json::Array params;
            for (auto* P : FD->parameters())
                params.push_back(json::Object{{"name", P->getName().str()}, {"did", idOf(P)},
                                              {"t", typeStr(P->getType())}});
            fn["params"] = std::move(params);

            CFG::BuildOptions BO;
            BO.setAllAlwaysAdd();
            BO.AddImplicitDtors  = true;
            BO.AddTemporaryDtors = true;
            BO.AddInitializers   = true;
            BO.AddEHEdges        = false;
            BO.PruneTriviallyFalseEdges = false;
            std::unique_ptr<CFG> G = CFG::buildCFG(FD, const_cast<Stmt*>(Body), &Ctx, BO);
            if (!G)
            {
                fn["cfg_failed"] = true;
                OS << json::Value(std::move(fn)) << "\n";
                ++nFns;
                return;
            }
            ParentMap PM(const_cast<Stmt*>(Body));
            std::map<const CXXTryStmt*, int> tryIds;
            auto tryOf = [&](const Stmt* St) -> int {
                // innermost try whose *try block* (not a handler) contains St; 0 = none
                const Stmt* Child = St;
                for (const Stmt* P = PM.getParent(St); P; Child = P, P = PM.getParent(P))
                    if (auto* TS = dyn_cast<CXXTryStmt>(P))
                        if (TS->getTryBlock() == Child)
                        {
                            auto it = tryIds.find(TS);
                            if (it != tryIds.end())
                                return it->second;
                            int n      = (int)tryIds.size() + 1;
                            tryIds[TS] = n;
                            return n;
                        }
                return 0;
            };
            auto handlerOf = [&](const Stmt* St) -> int {
                // innermost try one of whose handlers contains St; 0 = none
                const Stmt* Child = St;
                for (const Stmt* P = PM.getParent(St); P; Child = P, P = PM.getParent(P))
                    if (auto* TS = dyn_cast<CXXTryStmt>(P))
                        if (TS->getTryBlock() != Child)
                        {
                            auto it = tryIds.find(TS);
                            if (it != tryIds.end())
                                return it->second;
                            int n      = (int)tryIds.size() + 1;
                            tryIds[TS] = n;
                            return n;
                        }
                return 0;
            };
            (void)handlerOf;
            fn["entry"] = (int64_t)G->getEntry().getBlockID();
            fn["exit"]  = (int64_t)G->getExit().getBlockID();
            json::Array blocks;
            for (const CFGBlock* B : *G)
            {
                json::Object jb{{"id", (int64_t)B->getBlockID()}};
                json::Array  succ;
                for (auto SI = B->succ_begin(); SI != B->succ_end(); ++SI)
                {
                    if (const CFGBlock* SB = SI->getReachableBlock())
                        succ.push_back((int64_t)SB->getBlockID());
                    else if (const CFGBlock* UB = SI->getPossiblyUnreachableBlock())
                        succ.push_back(json::Object{{"unreachable", (int64_t)UB->getBlockID()}});
                    else
                        succ.push_back(nullptr);
                }
                jb["succ"] = std::move(succ);
                if (B->hasNoReturnElement())
                    jb["noreturn"] = true;
                if (const Stmt* L = B->getLabel())
                {
                    if (auto* CS = dyn_cast<CXXCatchStmt>(L))
                    {
                        json::Object c{{"k", "catch"}};
                        if (CS->getExceptionDecl())
                        {
                            c["type"] = typeStr(CS->getCaughtType());
                            c["did"]  = idOf(CS->getExceptionDecl());
                        }
                        else
                            c["all"] = true;
                        if (auto* TS = dyn_cast_or_null<CXXTryStmt>(PM.getParent(CS)))
                        {
                            auto it = tryIds.find(TS);
                            int  n;
                            if (it != tryIds.end())
                                n = it->second;
                            else
                            {
                                n          = (int)tryIds.size() + 1;
                                tryIds[TS] = n;
                            }
                            c["try"] = n;
                            // the try enclosing this try statement (for rethrow)
                            c["outer_try"] = tryOf(TS);
                        }
                        jb["label"] = std::move(c);
                    }
                    else
                        jb["label"] = json::Object{{"k", L->getStmtClassName()}};
                }
                json::Array evs;
                for (const CFGElement& El : *B)
                {
                    if (auto CS = El.getAs<CFGStmt>())
                    {
                        const Stmt* St = CS->getStmt();
                        if (isInteresting(St))
                        {
                            json::Value ev = eventOf(St);
                            if (int t = tryOf(St))
                                (*ev.getAsObject())["try"] = t;
                            if (int h = handlerOf(St))
                                (*ev.getAsObject())["in_handler"] = h;
                            evs.push_back(std::move(ev));
                        }
                    }
                    else if (auto CI = El.getAs<CFGInitializer>())
                    {
                        const CXXCtorInitializer* I = CI->getInitializer();
                        json::Object o{{"ev", "init"}, {"loc", locStr(I->getSourceLocation())}};
                        if (I->isAnyMemberInitializer())
                            o["field"] = I->getAnyMember()->getName().str();
                        else if (I->isBaseInitializer())
                            o["base"] = typeStr(QualType(I->getBaseClass(), 0));
                        else if (I->isDelegatingInitializer())
                            o["delegating"] = true;
                        if (!I->isWritten())
                            o["implicit"] = true;
                        o["e"] = T(I->getInit());
                        evs.push_back(std::move(o));
                    }
                    else if (auto AD = El.getAs<CFGAutomaticObjDtor>())
                    {
                        const VarDecl* VD = AD->getVarDecl();
                        json::Object   o{{"ev", "dtor"}, {"what", "auto"}, {"name", VD->getName().str()},
                                       {"did", idOf(VD)}, {"t", typeStr(VD->getType())}};
                        if (const Stmt* TS2 = AD->getTriggerStmt())
                            if (int t = tryOf(TS2))
                                o["try"] = t;
                        if (auto* DD = AD->getDestructorDecl(Ctx))
                        {
                            o["noexcept"] = nothrowOf(DD, VD->getLocation());
                            o["key"]      = fnKey(DD);
                            if (DD->isTrivial())
                                o["trivial"] = true;
                        }
                        evs.push_back(std::move(o));
                    }
                    else if (auto TD = El.getAs<CFGTemporaryDtor>())
                    {
                        json::Object o{{"ev", "dtor"}, {"what", "temp"}};
                        o["t"] = typeStr(TD->getBindTemporaryExpr()->getType());
                        if (auto* DD = TD->getDestructorDecl(Ctx))
                            o["key"] = fnKey(DD);
                        evs.push_back(std::move(o));
                    }
                    else if (auto BD = El.getAs<CFGBaseDtor>())
                    {
                        json::Object o{{"ev", "dtor"}, {"what", "base"}};
                        o["t"] = typeStr(BD->getBaseSpecifier()->getType());
                        if (auto* DD = BD->getDestructorDecl(Ctx))
                            o["key"] = fnKey(DD);
                        evs.push_back(std::move(o));
                    }
                    else if (auto MD2 = El.getAs<CFGMemberDtor>())
                    {
                        json::Object o{{"ev", "dtor"}, {"what", "member"},
                                       {"name", MD2->getFieldDecl()->getName().str()}};
                        o["t"] = typeStr(MD2->getFieldDecl()->getType());
                        if (auto* DD = MD2->getDestructorDecl(Ctx))
                            o["key"] = fnKey(DD);
                        evs.push_back(std::move(o));
                    }
                    else if (auto DD2 = El.getAs<CFGDeleteDtor>())
                    {
                        json::Object o{{"ev", "dtor"}, {"what", "delete"}};
                        evs.push_back(std::move(o));
                    }
                }
                jb["events"] = std::move(evs);
                if (const Stmt* TS = B->getTerminatorStmt())
                {
                    json::Object t{{"cls", TS->getStmtClassName()}};
                    if (auto* BO2 = dyn_cast<BinaryOperator>(TS))
                        t["op"] = BO2->getOpcodeStr().str();
                    if (const Expr* C = dyn_cast_or_null<Expr>(B->getTerminatorCondition(false)))
                        t["cond"] = T(C);
                    if (const Expr* LC = B->getLastCondition())
                        t["leaf"] = T(LC);
                    t["loc"]   = locStr(TS->getBeginLoc());
                    jb["term"] = std::move(t);
                }
                blocks.push_back(std::move(jb));
            }
            fn["blocks"] = std::move(blocks);
            OS << json::Value(std::move(fn)) << "\n";
            ++nFns;
        }

        void emitClass(const CXXRecordDecl* RD)
        {
            json::Object c{{"rec", "class"}, {"name", qualName(RD)}, {"loc", locStr(RD->getLocation())}};
            if (RD->isLambda())
                return;
            json::Array bases;
            for (auto& B : RD->bases())
                bases.push_back(json::Object{{"t", typeStr(B.getType())}, {"virtual", B.isVirtual()}});
            c["bases"] = std::move(bases);
            json::Array fields;
            for (auto* F : RD->fields())
            {
                json::Object f{{"name", F->getName().str()}, {"t", typeStr(F->getType())}};
                QualType     FT = F->getType();
                if (!FT->isDependentType() && !FT->isIncompleteType())
                {
                    f["bits"] = (int64_t)Ctx.getTypeSize(FT);
                    if (FT->isIntegerType())
                        f["integer"] = true;
                    if (FT->isPointerType())
                        f["pointer"] = true;
                }
                if (F->hasInClassInitializer() && F->getInClassInitializer())
                    f["default_init"] = T(F->getInClassInitializer());
                fields.push_back(std::move(f));
            }
            c["fields"] = std::move(fields);
            json::Array svars;
            for (auto* D : RD->decls())
                if (auto* VD = dyn_cast<VarDecl>(D))
                    svars.push_back(json::Object{{"name", VD->getName().str()}, {"t", typeStr(VD->getType())}});
            c["static_vars"] = std::move(svars);
            json::Array methods;
            for (auto* D : RD->decls())
            {
                const FunctionDecl* FD = dyn_cast<FunctionDecl>(D);
                bool                tmpl = false;
                if (auto* FT = dyn_cast<FunctionTemplateDecl>(D))
                {
                    FD   = FT->getTemplatedDecl();
                    tmpl = true;
                }
                if (!FD)
                    continue;
                json::Object m{{"name", shortName(FD)}, {"key", fnKey(FD)}, {"loc", locStr(FD->getLocation())}};
                if (tmpl)
                    m["template"] = true;
                else if (!RD->isDependentType())
                    m["noexcept"] = nothrowOf(FD, FD->getLocation());
                if (FD->isDeleted())
                    m["deleted"] = true;
                if (FD->isDefaulted())
                    m["defaulted"] = true;
                if (FD->isImplicit())
                    m["implicit"] = true;
                if (auto* MD = dyn_cast<CXXMethodDecl>(FD))
                {
                    if (MD->isStatic())
                        m["static"] = true;
                    if (auto* CD = dyn_cast<CXXConstructorDecl>(MD))
                        m["kind"] = CD->isMoveConstructor() ? "move-ctor" : CD->isCopyConstructor() ? "copy-ctor" : "ctor";
                    else if (isa<CXXDestructorDecl>(MD))
                        m["kind"] = "dtor";
                    else if (MD->isMoveAssignmentOperator())
                        m["kind"] = "move-assign";
                    else if (MD->isCopyAssignmentOperator())
                        m["kind"] = "copy-assign";
                }
                m["ret"] = typeStr(FD->getReturnType());
                json::Array ps;
                for (auto* P : FD->parameters())
                    ps.push_back(json::Object{{"name", P->getName().str()}, {"t", typeStr(P->getType())}});
                m["params"] = std::move(ps);
                methods.push_back(std::move(m));
            }
            c["methods"] = std::move(methods);
            if (RD->isDependentType())
                c["pattern"] = true;
            OS << json::Value(std::move(c)) << "\n";
            ++nClasses;
        }
    };

    class Visitor : public RecursiveASTVisitor<Visitor>
    {
    public:
        explicit Visitor(Extractor& X) : X(X) {}
        bool shouldVisitTemplateInstantiations() const
        {
            return true;
        }
        bool shouldVisitImplicitCode() const
        {
            return false;
        }
        bool shouldVisitLambdaBody() const
        {
            return true;
        }

        bool VisitFunctionDecl(FunctionDecl* FD)
        {
            if (!FD->doesThisDeclarationHaveABody() || !FD->isThisDeclarationADefinition())
                return true;
            if (!X.inScope(FD))
                return true;
            bool dep = FD->isDependentContext();
            if (dep && !Patterns)
                return true;
            if (!seen.insert(FD).second)
                return true;
            X.emitFunction(FD, dep);
            return true;
        }

        bool VisitLambdaExpr(LambdaExpr* LE)
        {
            if (auto* CO = LE->getCallOperator())
                if (CO->doesThisDeclarationHaveABody() && X.inScope(CO) && !CO->isDependentContext())
                    if (seen.insert(CO).second)
                        X.emitFunction(CO, false);
            return true;
        }

        bool VisitCXXRecordDecl(CXXRecordDecl* RD)
        {
            if (!RD->isThisDeclarationADefinition() || !RD->isCompleteDefinition())
                return true;
            if (!X.inScope(RD))
                return true;
            if (RD->isDependentType() && !Patterns)
                return true;
            if (!seenC.insert(RD).second)
                return true;
            X.emitClass(RD);
            return true;
        }

    private:
        Extractor&                       X;
        std::set<const FunctionDecl*>    seen;
        std::set<const CXXRecordDecl*>   seenC;
    };

    class Consumer : public ASTConsumer
    {
    public:
        explicit Consumer(CompilerInstance& CI) : CI(CI) {}
        void HandleTranslationUnit(ASTContext& Ctx) override
        {
            if (CI.getDiagnostics().hasErrorOccurred())
            {
                llvm::errs() << "memfacts: compile errors, no facts written\n";
                return;
            }
            std::error_code      EC;
            llvm::raw_fd_ostream OS(OutFile, EC);
            if (EC)
            {
                llvm::errs() << "memfacts: cannot open " << OutFile << "\n";
                return;
            }
            Extractor X(Ctx, CI.getSema(), OS);
            Visitor   V(X);
            V.TraverseDecl(Ctx.getTranslationUnitDecl());
            OS << json::Value(json::Object{{"rec", "summary"}, {"functions", (int64_t)X.nFns},
                                           {"classes", (int64_t)X.nClasses}})
               << "\n";
        }

    private:
        CompilerInstance& CI;
    };

    class Action : public ASTFrontendAction
    {
    public:
        std::unique_ptr<ASTConsumer> CreateASTConsumer(CompilerInstance& CI, StringRef) override
        {
            return std::make_unique<Consumer>(CI);
        }
    };
} // namespace

int main(int argc, const char** argv)
{
    auto Exp = CommonOptionsParser::create(argc, argv, Cat);
    if (!Exp)
    {
        llvm::errs() << llvm::toString(Exp.takeError());
        return 2;
    }
    ClangTool Tool(Exp->getCompilations(), Exp->getSourcePathList());
    return Tool.run(newFrontendActionFactory<Action>().get());
}
