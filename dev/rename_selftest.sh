#!/bin/bash
# development self-test: every check must give the same verdict and the same per-rule instance counts when every parameter and
# local of the analysed program is renamed (VERIF_RENAME); prints the checks that differ
V=$(dirname "$(dirname "$(readlink -f "$0")")")
ids=$(python3 -c "import json;print(' '.join(c['property_id'] for c in json.load(open('$V/MANIFEST.json'))['checks']))")
mkdir -p /tmp/.rn; rm -f /tmp/.rn/*
"$V/bin/check" C01 >/dev/null 2>&1
echo $ids | tr ' ' '\n' | xargs -P6 -I{} sh -c "\"$V/bin/check\" {} 2>&1 | grep -E 'instance\(s\)|tier=' | sed 's/wall=.*//' > /tmp/.rn/{}.a; VERIF_OUT_ROOT=/tmp/.rn/out VERIF_RENAME=_rn \"$V/bin/check\" {} 2>&1 | grep -E 'instance\(s\)|tier=' | sed 's/wall=.*//' > /tmp/.rn/{}.b; cmp -s /tmp/.rn/{}.a /tmp/.rn/{}.b && echo '{} same' || { echo '{} DIFFERS'; diff /tmp/.rn/{}.a /tmp/.rn/{}.b | head -5; }" | sort
rm -rf /tmp/.rn
