#!/bin/bash
# Development aid: confirm a sub-agent's seeded change in its scratch worktree.
#   dev/confirm_seed.sh /tmp/seed_Cxx
# 1. with the change: library builds, ctest passes, demo exits non-zero
# 2. without the change (git stash): demo exits 0
# prints one summary line; leaves the worktree with the change applied
W="$1"; B="$W/_b"
set -o pipefail
cd "$W" || exit 2
[ -d "$B" ] || cmake -S "$W" -B "$B" -G Ninja -DCMAKE_BUILD_TYPE=RelWithDebInfo -DFETCHCONTENT_TRY_FIND_PACKAGE_MODE=ALWAYS >/dev/null 2>&1
demo() { g++ -std=gnu++17 -g -w -I"$W/include" -I"$B/src" "$W/seed/demo.cpp" "$B"/src/libfoonathan_memory-*.a -o "$W/seed/demo.bin" -pthread 2>&1 | tail -3; timeout 60 "$W/seed/demo.bin" >/dev/null 2>&1; echo $?; }
cmake --build "$B" >/dev/null 2>&1; built=$?
tests=$(ctest --test-dir "$B" --timeout 900 2>&1 | grep -c "100% tests passed")
with=$(demo | tail -1)
git stash -q -- include src
cmake --build "$B" >/dev/null 2>&1
without=$(demo | tail -1)
git stash pop -q
cmake --build "$B" >/dev/null 2>&1
echo "$(basename $W): build_rc=$built tests_pass=$tests demo_with_change_exit=$with demo_without_change_exit=$without"
rm -f "$W/seed/demo.bin"
