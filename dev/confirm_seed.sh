#!/bin/bash
# Development aid: confirm a sub-agent's seeded change in its scratch worktree.
#   dev/confirm_seed.sh /tmp/seed_Cxx
# 1. with the change: library builds, ctest passes (pinned configuration RelWithDebInfo), demo exits non-zero
# 2. without the change (reverse-applied; no git stash: the stash is shared between worktrees): demo exits 0
# If seed/BUILD_TYPE exists (e.g. "Debug": pointer checks, fences), the demo is linked against a second build of that type;
# the test suite is still run in the pinned configuration.
# prints one summary line; leaves the worktree with the change applied
W="$1"; B="$W/_b"
set -o pipefail
cd "$W" || exit 2
CF="-G Ninja -DFETCHCONTENT_TRY_FIND_PACKAGE_MODE=ALWAYS"
[ -d "$B" ] || cmake -S "$W" -B "$B" $CF -DCMAKE_BUILD_TYPE=RelWithDebInfo >/dev/null 2>&1
D="$B"
if [ -f "$W/seed/BUILD_TYPE" ]; then
  D="$W/_bd"; BT=$(tr -d ' \n' < "$W/seed/BUILD_TYPE")
  [ -d "$D" ] || cmake -S "$W" -B "$D" $CF -DCMAKE_BUILD_TYPE=$BT -DFOONATHAN_MEMORY_BUILD_TESTS=OFF -DFOONATHAN_MEMORY_BUILD_EXAMPLES=OFF -DFOONATHAN_MEMORY_BUILD_TOOLS=OFF >/dev/null 2>&1
fi
buildall() { cmake --build "$B" >/dev/null 2>&1; r=$?; [ "$D" != "$B" ] && { cmake --build "$D" >/dev/null 2>&1 || r=$?; }; return $r; }
demo() { g++ -std=gnu++17 -g -w -I"$W/include" -I"$D/src" "$W/seed/demo.cpp" "$D"/src/libfoonathan_memory-*.a -o "$W/seed/demo.bin" -pthread 2>&1 | tail -3; timeout 120 "$W/seed/demo.bin" >/dev/null 2>&1; echo $?; }
buildall; built=$?
tests=$(ctest --test-dir "$B" --timeout 900 2>&1 | grep -c "100% tests passed")
with=$(demo | tail -1)
git diff -- include src cmake > "$W/seed/.cur.diff"; git apply -R "$W/seed/.cur.diff"
buildall
without=$(demo | tail -1)
git apply "$W/seed/.cur.diff"; rm -f "$W/seed/.cur.diff"
buildall
echo "$(basename $W): build_rc=$built tests_pass=$tests demo_with_change_exit=$with demo_without_change_exit=$without demo_build=$(basename $D)"
rm -f "$W/seed/demo.bin"
