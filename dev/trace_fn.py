#!/usr/bin/env python3
"""development aid: print the path traces of functions matching <class template> <short> (config pinned unless given)"""
import sys, os
sys.path.insert(0, os.path.dirname(os.path.dirname(os.path.abspath(__file__))))
from engine import build, fwd, sym, facts
cls_t, short = sys.argv[1], sys.argv[2]
cfg = sys.argv[3] if len(sys.argv) > 3 else 'pinned'
db = build.load_db(cfg)
for f in db.find(cls_t=cls_t, short=short)[:1]:
    print('==', f.display, f.loc)
    for p in fwd.trace(f, db=db, roles={}):
        print('-- path')
        for st in p:
            if st['kind'] == 'br':
                print('   br', st['c'], st['taken'], st.get('stmt'))
            elif st['kind'] == 'ev':
                print('   ev', st['e'].get('ev'), sym.canon(st['t']) if st['t'] is not None else facts.estr(st['e']))
            else:
                print('   ', st['kind'], st.get('end'), sym.canon(st['ret']) if st.get('ret') else '')
