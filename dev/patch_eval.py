#!/usr/bin/env python3
"""Development aid (not a registered check): run every claimed check against scratch worktrees of /repo with one patch applied each.
usage: dev/patch_eval.py [-j N] <patch.diff> ...        prints, per patch, the checks that did not exit 0
Used for the behaviour-preserving refactorings produced by sub-agents (every non-zero exit is a false alarm of the machinery)
and for quick evaluation of seeded changes without touching /repo."""
import json, os, queue, shutil, subprocess, sys, tempfile
from concurrent.futures import ThreadPoolExecutor
VERIF = os.path.dirname(os.path.dirname(os.path.abspath(__file__)))
args = sys.argv[1:]
jobs = 8
if args[:1] == ['-j']:
    jobs = int(args[1]); args = args[2:]
patches = [os.path.abspath(a) for a in args]
checks = [c['property_id'] for c in json.load(open(os.path.join(VERIF, 'MANIFEST.json')))['checks']]
jobs = max(1, min(jobs, len(patches)))
root = tempfile.mkdtemp(prefix='verif-pe-')
slots = queue.Queue()
for i in range(jobs):
    wt = os.path.join(root, 'wt%d' % i)
    subprocess.run(['git', '-C', '/repo', 'worktree', 'add', '--detach', wt, 'HEAD'], stdout=subprocess.DEVNULL, stderr=subprocess.DEVNULL, check=True)
    slots.put((wt, os.path.join(root, 'cache%d' % i), os.path.join(root, 'out%d' % i)))


def one(patch):
    wt, cache, out = slots.get()
    try:
        r = subprocess.run(['git', '-C', wt, 'apply', patch], capture_output=True, text=True)
        if r.returncode:
            return patch, None, 'does not apply: ' + r.stderr.strip()[:200]
        env = dict(os.environ, VERIF_REPO=wt, VERIF_CACHE=cache, VERIF_OUT_ROOT=out)
        bad = []
        try:
            for pid in checks:
                p = subprocess.run([os.path.join(VERIF, 'bin', 'check'), pid], stdout=subprocess.PIPE, stderr=subprocess.STDOUT, text=True, env=env)
                if p.returncode:
                    lines = [l for l in p.stdout.splitlines() if (l.startswith('[%s] ' % pid) and ' at ' in l and ': ' in l) or 'ANALYSIS-BROKEN' in l]
                    bad.append((pid, p.returncode, (lines[0] if lines else p.stdout[-300:])[:420]))
        finally:
            subprocess.run(['git', '-C', wt, 'checkout', '--', '.'], stdout=subprocess.DEVNULL)
            subprocess.run(['git', '-C', wt, 'clean', '-fdq'], stdout=subprocess.DEVNULL)
        return patch, bad, None
    finally:
        slots.put((wt, cache, out))


nbad = 0
try:
    with ThreadPoolExecutor(max_workers=jobs) as ex:
        for patch, bad, err in ex.map(one, patches):
            name = '/'.join(patch.split('/')[-3:])
            if err:
                print('%-40s %s' % (name, err), flush=True)
                nbad += 1
            elif bad:
                nbad += 1
                for pid, rc, line in bad:
                    print('%-40s %s rc=%d %s' % (name, pid, rc, line), flush=True)
            else:
                print('%-40s all %d checks exit 0' % (name, len(checks)), flush=True)
finally:
    for i in range(jobs):
        subprocess.run(['git', '-C', '/repo', 'worktree', 'remove', '--force', os.path.join(root, 'wt%d' % i)], stdout=subprocess.DEVNULL, stderr=subprocess.DEVNULL)
    shutil.rmtree(root, ignore_errors=True)
    subprocess.run(['git', '-C', '/repo', 'worktree', 'prune'])
print('%d patch(es), %d with a non-zero check' % (len(patches), nbad))
