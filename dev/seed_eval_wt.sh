#!/bin/bash
# Development aid: run checks against a scratch worktree (VERIF_REPO) without touching /repo.
#   dev/seed_eval_wt.sh /tmp/seed_Cxx [Cxx ...]      (default: all claimed checks)
W="$1"; shift
V=$(dirname "$(dirname "$(readlink -f "$0")")")
C="$@"; [ -z "$C" ] && C=$(python3 -c "import json;print(' '.join(c['property_id'] for c in json.load(open('$V/MANIFEST.json'))['checks']))")
for c in $C; do
  out=$(VERIF_REPO="$W" "$V/bin/check" $c 2>&1); rc=$?
  echo "$c rc=$rc $(echo "$out" | grep -E "^\[$c\] .* at .*: |ANALYSIS-BROKEN" | head -1 | cut -c1-330)"
done
