#!/usr/bin/env python3
"""Development aid: apply a seeded patch to /repo, run all claimed checks, undo, report which fired.
usage: dev/seed_eval.py <patch.diff> [Cxx ...]"""
import json, os, subprocess, sys
VERIF = os.path.dirname(os.path.dirname(os.path.abspath(__file__)))
patch = sys.argv[1]
checks = sys.argv[2:] or [c['property_id'] for c in json.load(open(os.path.join(VERIF, 'MANIFEST.json')))['checks']]
assert subprocess.run(['git', '-C', '/repo', 'status', '--porcelain', '--untracked-files=no'], capture_output=True, text=True).stdout.strip() == '', 'repo dirty'
r = subprocess.run(['git', '-C', '/repo', 'apply', patch], capture_output=True, text=True)
if r.returncode:
    print('patch does not apply:', r.stderr); sys.exit(2)
try:
    for pid in checks:
        p = subprocess.run([os.path.join(VERIF, 'bin', 'check'), pid], stdout=subprocess.PIPE, stderr=subprocess.STDOUT, text=True)
        lines = [l for l in p.stdout.splitlines() if (l.startswith('[%s] ' % pid) and ' at ' in l and ': ' in l) or 'ANALYSIS-BROKEN' in l]
        print('%s rc=%d %s' % (pid, p.returncode, ('| ' + lines[0][:400]) if lines and p.returncode else ''))
finally:
    subprocess.run(['git', '-C', '/repo', 'checkout', '--', '.'])
