#!/bin/bash
# Development aid: run every claimed check (quick or thorough) and print one line each.
T=${1:-quick}; V=$(dirname "$(dirname "$(readlink -f "$0")")")
ids=$(python3 -c "import json;print(' '.join(c['property_id'] for c in json.load(open('$V/MANIFEST.json'))['checks']))")
"$V/bin/check" C01 --tier $T >/dev/null 2>&1   # warm the fact cache once
echo $ids | tr ' ' '\n' | xargs -P4 -I{} sh -c "\"$V/bin/check\" {} --tier $T > /tmp/.runall_{}.log 2>&1; echo \"{} rc=\$? \$(grep -E 'tier=' /tmp/.runall_{}.log | sed 's/.*tier=/tier=/') \$(grep -cE '^KNOWN-FINDING' /tmp/.runall_{}.log) known-line(s)\"; grep -E 'VIOLATION|ANALYSIS-BROKEN' /tmp/.runall_{}.log | head -3; rm -f /tmp/.runall_{}.log" | sort
