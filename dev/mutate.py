#!/usr/bin/env python3
"""Development aid (not a registered check): apply one textual edit from dev/mutants.json to /repo, run the listed
checks, print the verdicts, and restore /repo with `git checkout -- .`.  Breaking edits must be reported by the rule
named in `expect`, benign edits must leave every listed check at exit 0.

usage: dev/mutate.py [id ...]        (no id: all)"""
import json, os, subprocess, sys
HERE = os.path.dirname(os.path.abspath(__file__))
VERIF = os.path.dirname(HERE)
M = json.load(open(os.path.join(HERE, 'mutants.json')))
want = sys.argv[1:]
res = []
for m in M:
    if want and m['id'] not in want:
        continue
    path = os.path.join('/repo', m['file'])
    src = open(path).read()
    if src.count(m['old']) < 1:
        print('%-40s  PATTERN NOT FOUND' % m['id'])
        res.append((m['id'], 'pattern-missing'))
        continue
    new = src.replace(m['old'], m['new'], 1 if not m.get('all') else -1)
    open(path, 'w').write(new)
    try:
        verdicts = {}
        for pid in m['checks']:
            p = subprocess.run([os.path.join(VERIF, 'bin', 'check'), pid], stdout=subprocess.PIPE, stderr=subprocess.STDOUT, text=True)
            rules = sorted({l.split(':')[0].split('] ')[1] for l in p.stdout.splitlines() if l.startswith('[%s] ' % pid) and ': ' in l and ' at ' in l})
            verdicts[pid] = (p.returncode, rules, [l for l in p.stdout.splitlines() if 'ANALYSIS-BROKEN' in l][:2])
    finally:
        subprocess.run(['git', '-C', '/repo', 'checkout', '--', '.'])
    exp = m.get('expect', {})
    ok = True
    for pid, (rc, rules, broken) in verdicts.items():
        if pid in exp:
            if rc != 1 or (exp[pid] and exp[pid] not in rules):
                ok = False
        else:
            if rc != 0:
                ok = False
    print('%-40s %s  %s' % (m['id'], 'OK  ' if ok else 'FAIL', {k: (v[0], v[1], v[2]) for k, v in verdicts.items()}))
    res.append((m['id'], ok))
bad = [r for r in res if r[1] is not True]
print('%d mutant(s), %d not as expected' % (len(res), len(bad)))
sys.exit(1 if bad else 0)
