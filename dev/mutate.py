#!/usr/bin/env python3
"""Development aid (not a registered check): apply one textual edit from dev/mutants.json to a scratch worktree of /repo
(never to /repo itself), run the listed checks against it (VERIF_REPO), print the verdicts.  Breaking edits must be reported by
the rule named in `expect`, benign edits must leave every listed check at exit 0.

usage: dev/mutate.py [-j N] [id ...]        (no id: all; default 8 parallel scratch worktrees under /tmp, removed at the end)"""
import json, os, shutil, subprocess, sys, tempfile
from concurrent.futures import ThreadPoolExecutor
import queue
HERE = os.path.dirname(os.path.abspath(__file__))
VERIF = os.path.dirname(HERE)
M = json.load(open(os.path.join(HERE, 'mutants.json')))
args = sys.argv[1:]
jobs = 8
if args[:1] == ['-j']:
    jobs = int(args[1]); args = args[2:]
want = args
todo = [m for m in M if not want or m['id'] in want]
jobs = max(1, min(jobs, len(todo)))
root = tempfile.mkdtemp(prefix='verif-mut-')
slots = queue.Queue()
for i in range(jobs):
    wt = os.path.join(root, 'wt%d' % i)
    subprocess.run(['git', '-C', '/repo', 'worktree', 'add', '--detach', wt, 'HEAD'], stdout=subprocess.DEVNULL, stderr=subprocess.DEVNULL, check=True)
    # the working tree of /repo, not only HEAD, is what is mutated
    d = subprocess.run(['git', '-C', '/repo', 'diff', 'HEAD'], capture_output=True, text=True).stdout
    if d.strip():
        subprocess.run(['git', '-C', wt, 'apply'], input=d, text=True, check=True)
    slots.put((wt, os.path.join(root, 'cache%d' % i), os.path.join(root, 'out%d' % i)))


def one(m):
    wt, cache, out = slots.get()
    try:
        path = os.path.join(wt, m['file'])
        src = open(path).read()
        if src.count(m['old']) < 1:
            return m, None, 'PATTERN NOT FOUND'
        open(path, 'w').write(src.replace(m['old'], m['new'], 1 if not m.get('all') else -1))
        env = dict(os.environ, VERIF_REPO=wt, VERIF_CACHE=cache, VERIF_OUT_ROOT=out)
        verdicts = {}
        try:
            for pid in m['checks']:
                p = subprocess.run([os.path.join(VERIF, 'bin', 'check'), pid], stdout=subprocess.PIPE, stderr=subprocess.STDOUT, text=True, env=env)
                rules = sorted({l.split(':')[0].split('] ')[1] for l in p.stdout.splitlines() if l.startswith('[%s] ' % pid) and ': ' in l and ' at ' in l})
                verdicts[pid] = (p.returncode, rules, [l for l in p.stdout.splitlines() if 'ANALYSIS-BROKEN' in l][:2])
        finally:
            open(path, 'w').write(src)
        return m, verdicts, None
    finally:
        slots.put((wt, cache, out))


res = []
try:
    with ThreadPoolExecutor(max_workers=jobs) as ex:
        for m, verdicts, err in ex.map(one, todo):
            if err:
                print('%-40s  %s' % (m['id'], err), flush=True)
                res.append((m['id'], 'pattern-missing'))
                continue
            exp = m.get('expect', {})
            ok = True
            for pid, (rc, rules, broken) in verdicts.items():
                if pid in exp:
                    if rc != 1 or (exp[pid] and exp[pid] not in rules):
                        ok = False
                elif rc != 0:
                    ok = False
            print('%-40s %s  %s' % (m['id'], 'OK  ' if ok else 'FAIL', {k: (v[0], v[1], v[2]) for k, v in verdicts.items()}), flush=True)
            res.append((m['id'], ok))
finally:
    for i in range(jobs):
        subprocess.run(['git', '-C', '/repo', 'worktree', 'remove', '--force', os.path.join(root, 'wt%d' % i)], stdout=subprocess.DEVNULL, stderr=subprocess.DEVNULL)
    shutil.rmtree(root, ignore_errors=True)
    subprocess.run(['git', '-C', '/repo', 'worktree', 'prune'])
bad = [r for r in res if r[1] is not True]
print('%d mutant(s), %d not as expected' % (len(res), len(bad)))
sys.exit(1 if bad else 0)
