#!/bin/sh
# development aid: scratch worktree of /repo with one patch applied, then run the given checks against it
# usage: dev/dbg.sh <name> <ABS patch|-> [Cxx ...]     (worktree /tmp/dbg_<name>; `dev/dbg.sh <name> rm` removes it)
n=$1; p=$2; shift 2
wt=/tmp/dbg_$n
if [ "$p" = rm ]; then git -C /repo worktree remove --force $wt; rm -rf ${wt}_cache ${wt}_out; git -C /repo worktree prune; exit 0; fi
if [ ! -d $wt ]; then git -C /repo worktree add --detach $wt HEAD >/dev/null 2>&1 || exit 3; [ "$p" != - ] && { git -C $wt apply $p || exit 3; }; fi
for c in "$@"; do VERIF_REPO=$wt VERIF_CACHE=${wt}_cache VERIF_OUT_ROOT=${wt}_out /verif/bin/check $c 2>&1 | grep -v 'instance(s)$' | cut -c1-1500; done
