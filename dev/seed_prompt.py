#!/usr/bin/env python3
"""Development aid: print the prompt for a seeding sub-agent (property text only, nothing from /verif).
usage: dev/seed_prompt.py <Cxx> <worktree> <context sentence> <examples of plausible bugs> [Debug]"""
import json, sys
pid, W, ctx, ex = sys.argv[1:5]
debug = len(sys.argv) > 5 and sys.argv[5] == 'Debug'
tried = sys.argv[6] if len(sys.argv) > 6 else ''
P = {json.loads(l)['id']: json.loads(l) for l in open('/verif/properties.jsonl')}[pid]
text = '%s: %s' % (P['title'], P['statement'])
dbg = ''
if debug:
    dbg = (' This property is about the library\'s Debug configuration (pointer checks, double-free checks, fences): the existing test suite must pass in the '
           'RelWithDebInfo build above, but your demonstration may be linked against a second build: '
           'cmake -S {W} -B {W}/_bd -G Ninja -DCMAKE_BUILD_TYPE=Debug -DFETCHCONTENT_TRY_FIND_PACKAGE_MODE=ALWAYS -DFOONATHAN_MEMORY_BUILD_TESTS=OFF -DFOONATHAN_MEMORY_BUILD_EXAMPLES=OFF -DFOONATHAN_MEMORY_BUILD_TOOLS=OFF '
           '>/dev/null && cmake --build {W}/_bd ; then compile the demo with -I{W}/_bd/src and {W}/_bd/src/libfoonathan_memory-*.a , and create the file '
           '{W}/seed/BUILD_TYPE containing the single word Debug. (In Debug, failed checks call handlers that abort by default; '
           'install your own handlers with set_invalid_pointer_handler / set_buffer_overflow_handler / set_leak_handler where useful.)').format(W=W)
print(('''You are helping to test a verification tool. Work ONLY inside the directory {W}, which is a scratch git worktree of the C++ library foonathan/memory ({ctx}). Do NOT read or touch /verif or /repo (the test of independence depends on it), and do not look at anything outside {W} except system headers/tools. Do not use `git stash` (the stash is shared between worktrees and other people use it concurrently).

The library is supposed to satisfy this property:

"{text}"

Your task: produce ONE realistic change (a plausible bug a maintainer could introduce: {ex}, two cooperating sites that each look fine alone, ...) to the library sources under {W}/include or {W}/src that BREAKS this property, while the library still compiles and its existing test suite still passes. {tried}Prefer a change that needs something specific to manifest - a particular size, alignment, order of operations, configuration or failure - rather than something any ordinary use would expose at once. Do not edit tests, and do not make the change depend on a new macro.

How to build and test (offline, no network; the extra flag makes cmake use the system doctest instead of downloading it):
  cmake -S {W} -B {W}/_b -G Ninja -DCMAKE_BUILD_TYPE=RelWithDebInfo -DFETCHCONTENT_TRY_FIND_PACKAGE_MODE=ALWAYS >/dev/null && cmake --build {W}/_b 2>&1 | tail -3 && ctest --test-dir {W}/_b --timeout 900 2>&1 | tail -3
A demonstration program can be compiled against the built static library like this:
  g++ -std=gnu++17 -g -w -I{W}/include -I{W}/_b/src demo.cpp {W}/_b/src/libfoonathan_memory-*.a -o demo -pthread
The demonstration must work with the RelWithDebInfo build in {W}/_b (that is how it will be re-run).{dbg}

Deliverables, all inside {W}/seed/ (create the directory):
  1. patch.diff  - `git -C {W} diff -- include src` of your change to the library sources only.
  2. demo.cpp    - a small self-contained program (exit status 0 = property holds, non-zero = violated, printing what it observed; it must terminate within a minute) that FAILS with your change and PASSES on the unchanged sources. Verify both yourself (switch with `git -C {W} apply -R seed/patch.diff` / `git -C {W} apply seed/patch.diff`; rebuild each time).
  3. notes.md    - which file/function you changed, why it breaks the property, what exactly is needed for it to manifest, the exact commands you ran and their observed results.
Leave the worktree with your change applied (uncommitted) when you finish. In your final answer, summarise the change in 5-10 lines and state the verified outcomes (tests pass with change: yes/no; demo fails with change: yes/no; demo passes without: yes/no).''').format(W=W, ctx=ctx, text=text, ex=ex, dbg=dbg, tried=('Other people already tried the following changes; produce a DIFFERENT one, in a different function if possible: ' + tried + '. ') if tried else ''))
