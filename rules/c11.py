"""C11 - joint allocations stay inside the object's single block and it is freed whole (structural clauses).

R-TERM.chain   allocation size sizeof(T) + additional  ->  joint(additional)  ->  joint_stack(get_memory(obj), capacity)
               ->  end_ = mem + cap  ->  capacity(mem) = end_ - mem  ->  reset releases sizeof(T) + capacity(get_memory(obj)), alignof(T):
               every link is the expected term, so the release terms equal the allocation terms
R-JOINT.bound  joint_stack::allocate bounds by end_; bump is checked (C01); a null from the joint stack becomes out_of_fixed_memory
R-JOINT.lifo   joint_allocator::deallocate_node unwinds only when the memory is the last allocation (ptr + size == top())
R-JOINT.reset  reset(): destroy the object, then release, then null the pointer, only if non-null
"""
import re

from engine import build, fwd, sym, flow
from engine.facts import cls_template, strip_ns, top_term, subterms, tstr
from rules import common, c01

LEVEL = 'other'


def one_ret(db, f, roles):
    S = [s for s in fwd.summarize(f, db=db, roles=roles, no_forward=True) if s.end == 'return']
    return S[0].ret if len(S) == 1 else None


def inits(f, roles):
    return {e.get('field') or ('base:' + strip_ns(e.get('base', ''))): sym.canon(e['e'], roles) for e in f.events() if e['ev'] == 'init' and not e.get('implicit')}


def check_chain(run, db):
    n = 0
    site = lambda fn: {'function': fn, 'role': 'allocation/release term chain'}
    # joint::joint(cap)
    for f in db.find(cls_t='joint', kind='ctor'):
        if len(f.params) == 1:
            n += 1
            i = inits(f, {0: 'cap'})
            _emit(run, f, db, i.get('capacity') == '$cap', 'joint stores the capacity it is given', 'joint(cap) stores %s' % i.get('capacity'), site('joint::<ctor>'))
    # joint_stack(mem, cap)
    for f in db.find(cls_t='detail::joint_stack', kind='ctor'):
        if len(f.params) == 2:
            n += 1
            i = inits(f, {0: 'mem', 1: 'cap'})
            okk = i.get('end_') in ('($cap + $mem)', '($mem + $cap)') and i.get('stack_', '').startswith('detail::fixed_memory_stack{$mem}') or \
                (i.get('end_') in ('($cap + $mem)', '($mem + $cap)') and '$mem' in i.get('stack_', ''))
            _emit(run, f, db, okk, 'stack_ starts at mem, end_ = mem + cap', 'joint_stack(mem, cap): stack_=%s end_=%s' % (i.get('stack_'), i.get('end_')), site('detail::joint_stack::<ctor>'))
    for f in db.find(cls_t='detail::joint_stack', short='capacity'):
        n += 1
        r = one_ret(db, f, {0: 'mem'})
        _emit(run, f, db, r == '(this.end_ - $mem)', 'capacity(mem) = end_ - mem', 'capacity(mem) returns %s' % r, site('detail::joint_stack::capacity'))
    for short in ('allocate', 'bump'):
        for f in db.find(cls_t='detail::joint_stack', short=short):
            # the general bound rule of C01 (helpers of the fixed stack inlined), with the region end required to be end_
            n += c01.check_bound(run, db, fns=[f], rule='R-JOINT.bound', end_pred=lambda rest: any('this.end_' in a for a in rest),
                                 site_fn='detail::joint_stack::' + short)
    # get_memory(obj) = (char*)&obj + sizeof(T)
    for f in db.find(short='get_memory'):
        if '::detail::' not in f.name:
            continue
        n += 1
        r = one_ret(db, f, {0: 'obj'})
        pt = f.params[0]['t']
        mT = re.search(r'joint_type<(.+)> &$', pt)
        T = strip_ns(mT.group(1)) if mT else '?'
        okk = r in ('(&($obj) + sizeof(%s))' % T, '(sizeof(%s) + &($obj))' % T)
        _emit(run, f, db, bool(okk), 'joint memory starts right after the object', 'get_memory returns %s' % r, site('detail::get_memory'))
    # joint_type<T>(joint j): stack_(get_memory(*this), j.capacity)
    for f in db.find(cls_t='joint_type', kind='ctor'):
        n += 1
        i = inits(f, {0: 'j'})
        okk = i.get('stack_', '').replace(' ', '') in ('detail::joint_stack{get_memory(*(this)),$j.capacity}',)
        _emit(run, f, db, okk, 'stack over (get_memory(*this), j.capacity)', 'joint_type constructor builds %s' % i.get('stack_'), site('joint_type::<ctor>'))
    # create / reset per instantiation
    by_cls = {}
    for f in db.find(cls_t='joint_ptr'):
        by_cls.setdefault(f.cls, []).append(f)
    for cls, fns in sorted(by_cls.items()):
        T = None
        creates = [f for f in fns if f.short == 'create']
        resets = [f for f in fns if f.short == 'reset']
        for f in creates:
            n += 1
            # static / private helpers of joint_ptr (an extracted placement-new) are seen through
            S = [s for s in fwd.summarize(f, db=db, roles={0: 'additional_size'}, inline_pred=lambda fn, callee, t: callee.cls == fn.cls and callee.key != fn.key
                                          and len(callee.blocks) <= 12 and callee.short not in ('deallocate_node', 'allocate_node', 'get', 'operator*', 'operator->')) if s.end == 'return']
            okk = False
            why = 'no allocation'
            for s in S:
                a = [fc for fc in s.fwd if fc.kind == 'allocate_node']
                if len(a) != 1:
                    why = '%d allocations' % len(a)
                    continue
                m = re.match(r'^\(\$additional_size \+ sizeof\((.+)\)\)$', a[0].args.get('size', ''))
                news = [c for c in s.calls if c[1].get('k') == 'new']
                jn = [c for c in s.calls if c[1].get('k') == 'construct' and cls_template(c[1].get('type', '')) == 'joint']
                if not m:
                    why = 'allocates %s, not sizeof(T) + additional_size' % a[0].args.get('size')
                elif a[0].args.get('alignment') != 'alignof(%s)' % m.group(1):
                    why = 'allocates with alignment %s' % a[0].args.get('alignment')
                elif not any(c[0].startswith('new(R#0)') for c in news):
                    why = 'the object is not constructed at the start of the allocation'
                elif not any(c[0] == 'joint{$additional_size}' for c in jn):
                    why = 'the object is not told its additional capacity (joint(additional_size))'
                else:
                    okk = True
            _emit(run, f, db, okk, 'allocates sizeof(T) + additional, constructs T(joint(additional), ...) at its start', 'create: ' + why, site('joint_ptr::create'))
        for f in resets:
            n += 1
            # private helpers of joint_ptr (an extracted release routine) are inlined: the rule is about what reset() does, not where
            S = [s for s in fwd.summarize(f, db=db, roles={}, inline_pred=lambda fn, callee, t: callee.cls == fn.cls and callee.kind == 'method'
                                          and len(callee.blocks) <= 12 and callee.short not in ('deallocate_node', 'get', 'operator*', 'operator->')) if s.end == 'return']
            probs = []
            for s in S:
                rel = [fc for fc in s.fwd if fc.kind == 'deallocate_node']
                armed = ('this.ptr_', True) in s.conds
                if not armed:
                    if rel or s.calls:
                        probs.append('null pointer path is not a no-op')
                    continue
                if len(rel) != 1:
                    probs.append('releases %d times' % len(rel))
                    continue
                r = rel[0]
                m = re.match(r'^\(get_stack\(\*\(this\.ptr_\)\)\.capacity\(get_memory\(\*\(this\.ptr_\)\)\) \+ sizeof\((.+)\)\)$|^\(sizeof\((.+)\) \+ get_stack\(\*\(this\.ptr_\)\)\.capacity\(get_memory\(\*\(this\.ptr_\)\)\)\)$', r.args.get('size', ''))
                if not m:
                    probs.append('releases size %s, not sizeof(T) + capacity(get_memory(*ptr_))' % r.args.get('size'))
                else:
                    T = m.group(1) or m.group(2)
                    if r.args.get('alignment') != 'alignof(%s)' % T:
                        probs.append('releases with alignment %s' % r.args.get('alignment'))
                if r.args.get('ptr') != 'this.ptr_':
                    probs.append('releases %s' % r.args.get('ptr'))
                # order: destructor call, release, null
                names = [c[1].get('short') for c in s.calls]
                dt = [i for i, c in enumerate(s.calls) if c[1].get('short') == '<dtor>']
                if not dt:
                    probs.append('the object is not destroyed')
                elif s.calls[dt[0]][3] != 0:
                    probs.append('the object is destroyed after its memory was released')
                w = [x for x in s.writes if x[0] == 'this.ptr_' and x[1] == 'null']
                if not w or w[-1][3] < 1:
                    probs.append('ptr_ is not nulled after the release')
            _emit(run, f, db, not probs, 'destroy, release sizeof(T) + capacity(get_memory(*ptr_)) / alignof(T), null', '; '.join(sorted(set(probs))),
                  {'function': 'joint_ptr::reset', 'role': 'destroy, release with the allocation terms, null'}, rule='R-JOINT.reset')
    return n


def check_lifo(run, db):
    n = 0
    for f in db.find(cls_t='joint_allocator', short='deallocate_node'):
        n += 1
        probs = []
        for s in fwd.summarize(f, db=db, roles={0: 'ptr', 1: 'size'}, no_forward=True):
            if s.end != 'return':
                continue
            uw = [c for c in s.calls if c[1].get('short') == 'unwind']
            is_last = any(c in ('(($ptr + $size) == this.stack_.top())', '(this.stack_.top() == ($ptr + $size))') and tk for c, tk in s.conds)
            if uw and not is_last:
                probs.append('unwinds although the memory is not the last allocation (%s)' % (s.cond_key(),))
            if uw and uw[0][0] != 'this.stack_.unwind($ptr)':
                probs.append('unwinds to %s' % uw[0][0])
        _emit(run, f, db, not probs, 'unwinds to ptr only if ptr + size == top()', '; '.join(sorted(set(probs))),
              {'function': 'joint_allocator::deallocate_node', 'role': 'last allocation only'}, rule='R-JOINT.lifo')
    for f in db.find(cls_t='joint_allocator', short='allocate_node'):
        n += 1
        S = fwd.summarize(f, db=db, roles={0: 'size', 1: 'alignment'}, no_forward=True, exceptional=True)
        good = any(s.end == 'propagate' and s.throws and 'out_of_fixed_memory' in s.throws[2].get('type', '') and ('this.stack_.allocate($size,$alignment)', False) in s.conds for s in S) \
            and all(('this.stack_.allocate($size,$alignment)', True) in s.conds for s in S if s.end == 'return')
        _emit(run, f, db, good, 'null from the joint stack becomes out_of_fixed_memory', 'a null result of the joint stack is not turned into out_of_fixed_memory',
              {'function': 'joint_allocator::allocate_node', 'role': 'overflow is signalled'}, rule='R-JOINT.bound')
    for f in db.find(cls_t='joint_array', kind='ctor'):
        if not f.params:
            continue
        allocs = [t for e, t in flow.call_events(f) if t.get('short') == 'allocate' and 'joint_stack' in t.get('cls', '')]
        bumps = [t for e, t in flow.call_events(f) if t.get('short') == 'bump' and 'joint_stack' in t.get('cls', '')]
        if not allocs and not bumps:
            continue
        n += 1
        S = fwd.summarize(f, db=db, roles={}, no_forward=True, exceptional=True)
        probs = []
        for s in S:
            if s.end != 'return':
                continue
            for c in s.calls:
                if c[1].get('short') == 'allocate' and 'joint_stack' in c[1].get('cls', ''):
                    if not any((cc == 'this.ptr_' or '.allocate(' in cc) and tk for cc, tk in s.conds):
                        probs.append('continues although the joint stack returned null')
                if c[1].get('short') == 'bump' and 'joint_stack' in c[1].get('cls', ''):
                    if not any('.bump(' in cc and tk for cc, tk in s.conds):
                        probs.append('continues although bump() failed')
        thr = [s for s in S if s.end == 'propagate' and s.throws and 'out_of_fixed_memory' in s.throws[2].get('type', '')]
        if not thr:
            probs.append('never throws out_of_fixed_memory')
        _emit(run, f, db, not probs, 'null / failed bump becomes out_of_fixed_memory', '; '.join(sorted(set(probs))),
              {'function': 'joint_array::<ctor>', 'role': 'overflow is signalled'}, rule='R-JOINT.bound')
    return n


def _emit(run, f, db, okk, okmsg, badmsg, site, rule='R-TERM.chain'):
    inst = '%s [%s]' % (f.display, db.config)
    if okk:
        run.ok(rule, inst, f.loc, okmsg)
    else:
        run.violation(rule, inst, f.loc, badmsg, site=site)


def check_reserve_before_construct(run, db):
    """an element of a joint_array is constructed only in memory the joint stack has already granted: on every path through a
    constructor each builder::create() is covered by a reservation made before it - the delegation to the allocate-only constructor
    (all n elements), a joint_stack::allocate() whose result was tested non-null, or a joint_stack::bump() whose result was tested true
    (one element each).  A construction in front of its bump writes the element behind the block when the bump then fails."""
    n = 0
    INF = 10 ** 9
    for f in db.find(cls_t='joint_array'):
        if f.kind != 'ctor' or f.pattern:
            continue
        if not any(t.get('short') == 'create' and 'builder' in t.get('cls', '') for e, t in flow.call_events(f)):
            continue
        n += 1
        probs = set()
        try:
            traces = fwd.trace(f, db=db, roles={})
        except sym.PathLimit as ex:
            run.broke(str(ex))
            continue
        for p in traces:
            credit = 0
            for st in p:
                if st['kind'] == 'ev':
                    e = st['e']
                    if e['ev'] == 'init' and e.get('delegating'):
                        credit = INF
                    t0 = top_term(e)
                    if isinstance(t0, dict) and t0.get('k') == 'call' and t0.get('short') == 'create' and 'builder' in t0.get('cls', ''):
                        if credit < 1:
                            probs.add('`%s` constructs an element before the joint stack has granted its memory (the bump / allocation that reserves it comes later or is not tested)' % tstr(t0)[:50])
                        elif credit < INF:
                            credit -= 1
                elif st['kind'] == 'br':
                    for a, tk in fwd.split_condition(st['cond'], st['taken']):
                        for sub in subterms(a):
                            if isinstance(sub, dict) and sub.get('k') == 'call' and sub.get('short') in ('bump', 'allocate') and 'joint_stack' in sub.get('cls', ''):
                                # the path has found the result true / non-null (`if (!p)`, `p == nullptr`, a bool local ... any spelling)
                                if common.nonnull_on_path([(sym.canon(a), tk)], sym.canon(sub)) is True and credit < INF:
                                    credit += 1
        inst = '%s [%s]' % (f.display, db.config)
        if probs:
            run.violation('R-JOINT.reserve', inst, f.loc, '; '.join(sorted(probs)[:2]), site={'function': 'joint_array::<ctor>', 'role': 'memory reserved before construction'})
        else:
            run.ok('R-JOINT.reserve', inst, f.loc, 'every create() is covered by an earlier successful reservation')
    return n


def check_create_handler(run, db):
    """the block is also freed whole when construction fails: joint_ptr::create releases the allocation exactly once on every
    exceptional path with the terms it was allocated with (the shared guard rule of C20, reported here as R-JOINT.handler)"""
    from rules import c20, c05
    rr = c05._Renamed(run, 'R-JOINT.handler')
    n = 0
    for f in db.find(cls_t='joint_ptr', short='create'):
        c20.check_acquire_guard(rr, db, f, 'joint_ptr::create')
        n += 1
    return n


def run(run):
    run.rule('W-joint', 'joint memory cannot leave its object through containers, copies or moves (compile-time)', floor=1)
    run.rule('R-JOINT.handler', 'a failed construction releases the block with the terms it was allocated with', floor=2)
    run.rule('R-TERM.chain', 'allocation terms travel unchanged to the release', floor=8)
    run.rule('R-JOINT.bound', 'joint stack bounded by end_; overflow becomes out_of_fixed_memory', floor=6)
    run.rule('R-JOINT.lifo', 'joint_allocator frees only the last allocation', floor=1)
    run.rule('R-JOINT.reserve', 'joint_array constructs an element only in memory the joint stack has already granted', floor=2)
    run.rule('R-JOINT.reset', 'reset destroys, releases with the allocation terms, nulls', floor=2)
    run.explanation = ('The release size is not stored anywhere: it is re-derived from the joint stack. The chain of terms from the '
                       'allocation to the release is checked link by link. Disjointness/alignment of the pieces is C01/C02 on the underlying fixed_memory_stack.')
    from engine import witness
    cfgs = common.configs(run)
    witness.run_witness(run, 'W-joint', 'c11_joint.cpp', cfgs[:1] if run.tier == 'quick' else cfgs, compilers=('clang++',) if run.tier == 'quick' else ('clang++', 'g++'))
    for cfg in cfgs:
        db = common.load_or_skip(run, cfg, ('W-joint',))
        if db is None:
            return
        if check_chain(run, db) < 8:
            run.broke('joint chain functions not found [%s]' % cfg)
        if check_lifo(run, db) < 4:
            run.broke('joint_allocator / joint_array functions not found [%s]' % cfg)
        check_reserve_before_construct(run, db)
        if check_create_handler(run, db) < 1:
            run.broke('joint_ptr::create not instantiated [%s]' % cfg)
