"""C08 - composable deallocation recognises exactly its own memory.

R-OWN       in every try_deallocate_*: state changes only on paths that passed an ownership test on the same pointer;
            `true` is returned only on such paths, the failing branch returns false without touching anything; members
            with nothing to release return exactly the test.
R-OWN.scope the ownership test looks at all memory the allocator hands out: it is asked of a field of the allocator (the arena, the
            single block), not of a part obtained through a call (current block); memory_arena::owns is the used-block stack's test
            and that test walks the whole chain of blocks.
R-OWN-IVL   ownership tests are half-open intervals [base, base + size).
R-FWD       fallback_allocator / binary_segregator: default first, fallback second, same shape on the release side
            (nested compositions to depth 3 are instantiated).
W-iface     a class exposing any try_ member exposes the node pair and both-or-neither of the array pair.
"""
import re

from engine import build, fwd, sym, witness, fixtures, flow, linear
from engine.facts import cls_template, strip_ns, top_term, subterms, tstr
from rules import fwdrules

LEVEL = 'other'
OWN_TESTS = ('owns', 'contains')
# classes whose try_deallocate_* decide ownership themselves (others forward and are covered by R-FWD)
OWNERS = ['memory_pool', 'memory_pool_collection', 'composable_allocator_traits']
PURE_CALLEES = ('owns', 'contains', 'max_node_size', 'max_array_size', 'max_alignment', 'node_size', 'get', 'info',
                'capacity_left', 'next_capacity', 'alignment', 'top', 'get_allocator')


def is_state_change(fn, t):
    """a call that may modify allocator state: non-const member call on a field/parameter object"""
    if t.get('k') != 'call' or 'recv' not in t:
        return False
    if t.get('constm') or t.get('static'):
        return False
    if t.get('short') in PURE_CALLEES:
        return False
    return True


def owner_functions(db):
    out = []
    for ct in OWNERS:
        for f in db.find(cls_t=ct):
            if f.short in ('try_deallocate_node', 'try_deallocate_array'):
                if ct == 'composable_allocator_traits':
                    inner = cls_template(f.cls[f.cls.index('<') + 1:])
                    if inner not in ('memory_stack', 'iteration_allocator', 'memory_pool', 'memory_pool_collection'):
                        continue
                out.append(f)
    return out


def inline_own(f, callee, t):
    if len(callee.blocks) > 16:
        return False
    # inline the allocator's own try_deallocate_* helpers so that the test and the release are seen together
    return callee.short in ('try_deallocate_node', 'try_deallocate_array') and callee.key != f.key


def check_own(run, db, fns=None, rule='R-OWN'):
    fns = owner_functions(db) if fns is None else fns
    n = 0
    for f in fns:
        roles = fwd.fn_roles(f)
        if not roles:
            # member versions: (ptr) / (ptr, n) / (ptr, n, node_size)
            roles = {0: 'ptr'}
        try:
            S = fwd.summarize(f, db=db, roles=roles, inline_pred=inline_own, extra_forward=lambda fn, t: None)
        except sym.PathLimit as e:
            run.broke(str(e))
            continue
        problems = []
        tests_seen = 0
        scope_bad = set()
        for s in S:
            if s.end != 'return':
                continue
            for c in [c for c, tk in s.conds] + ([s.ret] if s.ret else []):
                if _is_own_test(c):
                    recv = re.sub(r'\.(owns|contains)\(\$ptr\)\)*$', '', c).lstrip('(')
                    if not re.match(r'^(\$state|this|\$\w+)(\.[A-Za-z_]\w*)*$', recv):
                        scope_bad.add(c)
            own_true = any(_is_own_test(c) and tk for c, tk in s.conds)
            own_false = any(_is_own_test(c) and not tk for c, tk in s.conds)
            tests_seen += own_true or own_false
            changes = [c for c in s.calls if is_state_change(f, c[1])] + \
                      [(repr(fc), fc.term, fc.event, 0) for fc in s.fwd if fc.kind.startswith('deallocate') or fc.kind.startswith('try_deallocate')]
            ret = s.ret
            ret_is_test = ret is not None and _is_own_test(ret)
            if ret_is_test:
                tests_seen += 1
                if changes:
                    problems.append('returns the ownership test but also changes state: %s' % changes[0][0][:80])
                continue
            if changes and not own_true:
                problems.append('`%s` is executed on a path that did not pass an ownership test on the pointer (%s)'
                                % (changes[0][0][:80], ' & '.join(s.cond_key()) or 'unconditional'))
            if ret == 'true' and not own_true:
                problems.append('returns true on a path without a positive ownership test (%s)' % (' & '.join(s.cond_key()) or 'unconditional'))
            if own_true and ret == 'false':
                probs_after = [c for c, tk in s.conds if not _is_own_test(c)]
                problems.append('refuses (returns false) although the pointer passed the ownership test%s: memory the allocator handed out is not taken back'
                                % ((' - because of `%s`' % probs_after[-1][:70]) if probs_after else ''))
            if own_false and ret != 'false':
                problems.append('ownership test failed but the function returns %s' % ret)
            if own_false and changes:
                problems.append('ownership test failed but `%s` is executed' % changes[0][0][:80])
            for c in changes:
                args = c[1].get('args', [])
                if args and 'ptr' in roles.values():
                    pass
        needs_test = any(s.end == 'return' and (s.ret != 'false' or [c for c in s.calls if is_state_change(f, c[1])]) for s in S)
        if not tests_seen and needs_test:
            problems.append('no ownership test (owns/contains on the pointer) on any path')
        inst = '%s [%s]' % (f.display, db.config)
        n += 1
        if scope_bad and rule == 'R-OWN':
            inner = cls_template(f.cls[f.cls.index('<') + 1:]) if cls_template(f.cls) == 'composable_allocator_traits' else cls_template(f.cls)
            run.violation('R-OWN.scope', inst, f.loc, 'the ownership test `%s` is asked of a part of the allocator\'s memory obtained through a call, not of the '
                          'allocator\'s arena / block itself: memory handed out from another block is not recognised' % sorted(scope_bad)[0][:90],
                          site={'function': '%s::%s' % (inner, f.short), 'role': 'ownership test covers all blocks'})
        elif rule == 'R-OWN' and tests_seen:
            run.ok('R-OWN.scope', inst, f.loc, 'ownership asked of a field of the allocator')
        if problems:
            run.violation(rule, inst, f.loc, '; '.join(sorted(set(problems))[:3]),
                          site={'function': '%s::%s' % (cls_template(f.cls), f.short), 'role': 'ownership test precedes release'})
        else:
            run.ok(rule, inst, f.loc, '%d path(s); release only after a positive ownership test on $ptr' % len(S))
    return n


def _is_own_test(c):
    return bool(re.search(r'\.(owns|contains)\(\$ptr\)$', c)) or bool(re.search(r'\.(owns|contains)\(\$ptr\)\)*$', c) and not c.startswith('('))


def check_intervals(run, db):
    """memory_block::contains and memory_block_stack::owns answer true exactly on a half-open interval: some comparison that holds
    on the accepting path bounds the pointer from below inclusively (B <= p), another bounds it strictly from above (p < B + S),
    and the two bounds differ by a size.  Decided on linear forms of the comparisons, so the spelling (<= / >=, negations, a single
    expression or nested ifs) does not matter."""
    from rules import c16
    n = 0
    roles = {0: 'ptr'}
    for f in db.find(cls_t='memory_block', short='contains') + db.find(cls_t='detail::memory_block_stack', short='owns'):
        n += 1
        # memory_block_stack::owns may ask memory_block::contains for each block: seen through (contains itself is decided above)
        S = fwd.summarize(f, roles=roles, db=db, no_forward=True,
                          inline_pred=lambda a, c, t: c.short == 'contains' and cls_template(c.cls or '') == 'memory_block' and c.key != a.key)
        facts = []          # (linear form d, op) with `d op 0` holding where the function answers true
        for s in S:
            if s.end != 'return':
                continue
            if s.ret == 'true':
                for ct, tk in s.cond_terms:
                    c = linear.compare(ct, tk, roles)
                    if c:
                        facts.append(c)
            elif s.ret not in ('false', None) and s.ret_term is not None:
                # what the returned expression being true implies: conjunctions split, negations pushed through
                for a, tk in fwd.split_condition(s.ret_term, True):
                    c = linear.compare(a, tk, roles)
                    if c:
                        facts.append(c)
                for ct, tk in s.cond_terms:
                    c = linear.compare(ct, tk, roles)
                    if c:
                        facts.append(c)
        lowers = [(d, op) for d, op in facts if d.get('$ptr', 0) == -1]
        uppers = [(d, op) for d, op in facts if d.get('$ptr', 0) == 1]
        bad = []
        good = False
        for dl, opl in lowers:
            base = {a: v for a, v in dl.items() if a != '$ptr'}            # B - p <= 0
            for du, opu in uppers:
                top = {a: -v for a, v in du.items() if a != '$ptr'}        # p - T < 0
                diff = linear.sub(top, base)
                if len(diff) == 1 and list(diff.values()) == [1] and 'size' in list(diff)[0]:
                    if opl == '<':
                        bad.append('lower bound is exclusive: the first byte of the block is not recognised')
                    elif opu != '<':
                        bad.append('upper bound is inclusive: the byte one past the block is taken for the block\'s')
                    else:
                        good = True
        inst = '%s [%s]' % (f.display, db.config)
        site = {'function': strip_ns(f.name), 'role': 'half-open interval'}
        if bad:
            run.violation('R-OWN-IVL', inst, f.loc, '; '.join(sorted(set(bad))), site=site)
        elif good:
            run.ok('R-OWN-IVL', inst, f.loc, 'base <= p < base + size')
        else:
            run.violation('R-OWN-IVL', inst, f.loc, 'ownership test is not of the form base <= p && p < base + size (comparisons found: %s)'
                          % [linear.fmt(d) + ' ' + op + ' 0' for d, op in facts][:4], site=site)
    return n


def _disjuncts(c):
    """top-level disjuncts of a canonical condition, compile-time constants folded: returns (atoms, always_true)"""
    if c.startswith('(') and c.endswith(')'):
        depth, parts, cur = 0, [], ''
        body = c[1:-1]
        i = 0
        while i < len(body):
            ch = body[i]
            if ch == '(':
                depth += 1
            elif ch == ')':
                depth -= 1
            if depth == 0 and body.startswith(' || ', i):
                parts.append(cur)
                cur = ''
                i += 4
                continue
            cur += ch
            i += 1
        parts.append(cur)
        if len(parts) > 1 and depth == 0:
            atoms = parts
        else:
            atoms = [c]
    else:
        atoms = [c]
    out = []
    for a in atoms:
        if re.match(r'^!\(g:std::integral_constant<bool, true>::value\)$', a) or re.match(r'^g:std::integral_constant<bool, false>::value$', a):
            continue        # constant false
        if re.match(r'^!\(g:std::integral_constant<bool, false>::value\)$', a) or re.match(r'^g:std::integral_constant<bool, true>::value$', a):
            return [], True
        out.append(a)
    return out, False


def check_pre_rejection(run, db):
    """a composable deallocation must not refuse, on grounds of size / count / alignment alone, a request its allocation sibling
    would have served: every condition under which try_deallocate_X answers false without looking at the pointer is also a condition
    under which try_allocate_X answers null (same term, parameters named by position)"""
    n = 0
    groups = {}
    for f in owner_functions(db):
        groups.setdefault(f.cls, {})[(f.short, len(f.params))] = f
    for cls, fns in sorted(groups.items()):
        for (short, np), rel in sorted(fns.items()):
            acq_name = short.replace('try_deallocate', 'try_allocate')
            acqs = [g for g in db.fns.values() if g.cls == cls and g.short == acq_name and len(g.params) == np - 1 and not g.pattern]
            if not acqs:
                continue
            acq = acqs[0]
            traits = cls_template(cls) == 'composable_allocator_traits'
            off = 1 if traits else 0
            names = ['count', 'size', 'alignment'] if 'array' in short else ['size', 'alignment']
            k = np - off - 1
            if not traits:
                names = (['count', 'size'] if 'array' in short else ['size'])[:k]
            ra = {off + i: names[i] for i in range(min(k, len(names)))}
            rr = {off: 'ptr'}
            rr.update({off + 1 + i: names[i] for i in range(min(k, len(names)))})
            if off:
                ra[0] = rr[0] = 'state'
            try:
                SA = fwd.summarize(acq, db=db, roles=ra, no_forward=True)
                SR = fwd.summarize(rel, db=db, roles=rr, no_forward=True)
            except sym.PathLimit as e:
                run.broke(str(e))
                continue
            acq_rej = set()
            for sa in SA:
                if sa.end == 'return' and sa.ret == 'null':
                    for c, tk in sa.conds:
                        acq_rej.add((c, tk))
                        if tk:
                            for a in _disjuncts(c)[0]:
                                acq_rej.add((a, True))
            bad = []
            for sr in SR:
                if sr.end != 'return' or sr.ret != 'false' or not sr.conds:
                    continue
                if any(_is_own_test(c) for c, tk in sr.conds):
                    continue
                c, tk = sr.conds[-1]
                if '$ptr' in c:
                    continue
                if (c, tk) in acq_rej:
                    continue
                atoms, always = _disjuncts(c) if tk else ([c], False)
                for a in atoms:
                    if '$ptr' in a or _is_own_test(a) or _is_own_test('(%s)' % a) or a.startswith('!(') and _is_own_test(a[2:-1]):
                        continue
                    if (a, tk) not in acq_rej:
                        bad.append('%s%s' % ('' if tk else 'not ', a))
            n += 1
            inst = '%s <-> %s [%s]' % (rel.display, acq_name, db.config)
            inner = cls_template(cls[cls.index('<') + 1:]) if traits else cls_template(cls)
            site = {'function': '%s::%s' % (inner, short), 'role': 'no refusal the allocation sibling does not share'}
            if bad:
                run.violation('R-OWN.pre', inst, rel.loc, 'refuses without looking at the pointer when [%s], a condition under which %s does not refuse: memory served for such a '
                              'request is never taken back' % ('; '.join(sorted(set(bad))[:2])[:160], acq_name), site=site)
            else:
                run.ok('R-OWN.pre', inst, rel.loc, 'pre-rejections are those of %s' % acq_name)
    return n


def check_scope_chain(run, db):
    """memory_arena::owns returns the used-block stack's test; memory_block_stack::owns walks the chain (loop advancing over prev)"""
    n = 0
    for f in db.find(cls_t='memory_arena', short='owns'):
        n += 1
        S = [s for s in fwd.summarize(f, roles={0: 'ptr'}) if s.end == 'return']
        inst = '%s [%s]' % (f.display, db.config)
        if len(S) == 1 and S[0].ret == 'this.used_.owns($ptr)':
            run.ok('R-OWN.scope', inst, f.loc, 'owns(ptr) == used_.owns(ptr)')
        else:
            run.violation('R-OWN.scope', inst, f.loc, 'memory_arena::owns is %s, not the used-block stack\'s test' % sorted(set(str(s.ret) for s in S))[:2],
                          site={'function': 'memory_arena::owns', 'role': 'all used blocks'})
    for f in db.find(cls_t='detail::memory_block_stack', short='owns'):
        n += 1
        inst = '%s [%s]' % (f.display, db.config)
        dom = f.dominators()
        back = [(b, su) for b, blk in f.blocks.items() for su in blk.get('succ', []) if su is not None and su in dom.get(b, ())]
        adv = [e for e in f.events() if e['ev'] == 'assign' and 'prev' in tstr(e['rhs'])]
        if back and adv:
            run.ok('R-OWN.scope', inst, f.loc, 'loop over the chain of blocks (advances over prev)')
        else:
            run.violation('R-OWN.scope', inst, f.loc, 'the test does not walk the chain of blocks (no loop advancing over prev): only %s' %
                          ('the head block is examined' if not back else 'one block is examined'), site={'function': 'memory_block_stack::owns', 'role': 'all used blocks'})
    return n


def check_fallback(run, db):
    n = 0
    for ct in ('fallback_allocator', 'binary_segregator'):
        by_cls = {}
        for f in db.find(cls_t=ct):
            by_cls.setdefault(f.cls, []).append(f)
        for cls, fns in sorted(by_cls.items()):
            by = fwdrules.find_pairs(fns)
            depth = cls.count('fallback_allocator<') + cls.count('binary_segregator<')
            run.count('max_nesting_depth', 0)
            run.counters['max_nesting_depth'] = max(run.counters['max_nesting_depth'], depth)
            for short, f in sorted(by.items()):
                if short.startswith('max_'):
                    continue
                fwdrules.fidelity(run, 'R-FWD', db, f, ct, allow_multi=(ct == 'fallback_allocator'))
                n += 1
                if ct == 'fallback_allocator':
                    # order: default first; the fallback only on the path where the default declined
                    for s in fwdrules.summaries(db, f):
                        if s.end != 'return' or not s.fwd:
                            continue
                        first = s.fwd[0]
                        prob = None
                        if 'get_default_allocator' not in first.target or not first.kind.startswith('try_'):
                            prob = 'first call is %s, not a try_ call on the default allocator' % first
                        if len(s.fwd) > 1:
                            if 'get_fallback_allocator' not in s.fwd[1].target:
                                prob = 'second call does not go to the fallback allocator'
                            if ('R#0', False) not in s.conds:
                                prob = 'fallback is used although the default did not decline (conditions %s)' % (s.cond_key(),)
                        elif ('R#0', True) not in s.conds:
                            prob = 'default declined but the fallback is not asked'
                        if prob:
                            run.violation('R-FWD', '%s [%s]' % (f.display, db.config), f.loc, prob,
                                          site={'function': 'fallback_allocator::' + short, 'role': 'default first'})
                            break
            for a, b in fwdrules.PAIRS:
                if a in by and b in by:
                    fwdrules.sibling_agreement(run, 'R-FWD', db, by[a], by[b], ct)
    return n


def run(run):
    run.rule('R-OWN', 'state changes in try_deallocate_* only after a positive ownership test on the same pointer; false branch returns false untouched', floor=20)
    run.rule('R-OWN.scope', 'the ownership test covers every block the allocator hands memory out from', floor=20)
    run.rule('R-OWN.pre', 'a composable deallocation refuses on size/alignment grounds only what its allocation sibling refuses', floor=10)
    run.rule('R-OWN-IVL', 'ownership tests are half-open intervals', floor=2)
    run.rule('R-OWN.reseat', 'the stack hands out memory only from blocks its ownership test asks about: cursor and arena change together on every exit', floor=4)
    run.rule('R-FWD', 'fallback/segregator: default first, fallback second, acquire/release siblings agree (nesting depth 3)', floor=40)
    run.rule('W-iface', 'composable interface completeness (compile-time)', floor=1)
    run.explanation = ('"returns true and releases iff it handed the memory out" is decided as: release and `true` only behind the '
                       'allocator\'s own ownership test on that pointer, `false` and no effect otherwise; fallback routing follows from sibling agreement.')
    run.assumptions += ['pointers inside an owned block that were never handed out are not distinguished (the library has no such check)']
    cfgs = build.QUICK_CONFIGS if run.tier == 'quick' else build.THOROUGH_CONFIGS
    witness.run_witness(run, 'W-iface', 'c08_iface.cpp', cfgs[:1] if run.tier == 'quick' else cfgs,
                        compilers=('clang++',) if run.tier == 'quick' else ('clang++', 'g++'))
    from rules import common
    for cfg in cfgs:
        db = common.load_or_skip(run, cfg, ('W-iface',))
        if db is None:
            return
        run.count('functions_analysed', len(db.fns))
        if check_own(run, db) < 10:
            run.broke('try_deallocate members not found [%s]' % cfg)
        if check_intervals(run, db) < 2:
            run.broke('ownership interval functions not found [%s]' % cfg)
        if check_pre_rejection(run, db) < 6:
            run.broke('composable siblings not found [%s]' % cfg)
        # the ownership test asks the arena, the memory is handed out through the stack cursor: the two must name the same blocks on
        # every exit (shared rule R-UNWIND.reseat of C06), otherwise memory is served that owns() does not recognise
        from rules import c06
        c06.check_reseat(run, db, rule='R-OWN.reseat')
        if check_scope_chain(run, db) < 2:
            run.broke('memory_arena::owns / memory_block_stack::owns not found [%s]' % cfg)
        if check_fallback(run, db) < 20:
            run.broke('fallback/segregator members not instantiated [%s]' % cfg)
    fixtures.expect_fire(run, 'c08_bad.cpp', _fixture, 'R-OWN')


def _fixture(db):
    from engine import report
    fired = set()
    for f in db.fns.values():
        if f.cls.startswith('verif_fix::') and f.short.startswith('try_deallocate'):
            r = report.Run('C08', 'quick')
            check_own(r, db, [f])
            if any(o['verdict'] != 'ok' for o in r.obligations):
                fired.add(f.cls.split('::')[-1])
    return fired
