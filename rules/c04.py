"""C04 - memory returned to a pool is reusable: no capacity is lost over any history (structural clauses).

R-UNLINK    acquire/release node-count agreement and capacity_ bookkeeping of the free lists (rules/unlink.py)
R-GROW      a pool asks its block source for memory only on paths where the matching free list is empty (single node)
            resp. where the array search on the existing memory returned null (arrays)
"""
import re

from engine import build, fwd, sym, fixtures, flow
from engine.facts import cls_template, strip_ns, top_term, tstr
from rules import common, unlink, c02

LEVEL = 'other'


def inline_helpers(f, callee, t):
    return callee.cls == f.cls and len(callee.blocks) <= 16 and callee.key != f.key and not callee.rec.get('constm')


def is_growth(t):
    return t.get('k') == 'call' and t.get('short') == 'allocate_block' and cls_template(t.get('cls', '')) == 'memory_arena'


def check_growth(run, db, fns=None):
    n = 0
    if fns is None:
        fns = []
        for ct in ('memory_pool', 'memory_pool_collection'):
            for f in db.find(cls_t=ct):
                if f.short in ('allocate_node', 'allocate_array') and f.noexcept != 'yes':
                    fns.append(f)
    for f in fns:
        try:
            S = fwd.summarize(f, db=db, inline_pred=inline_helpers, no_forward=True, roles={})
        except sym.PathLimit as e:
            run.broke(str(e))
            continue
        problems = []
        grow_paths = 0
        for s in S:
            if s.end != 'return':
                continue
            g = [c for c in s.calls if is_growth(c[1])]
            if not g:
                continue
            grow_paths += 1
            gi = s.calls.index(g[0])
            # the list the result finally comes from
            allocs = [c for c in s.calls if re.search(r'\.allocate\(', c[0]) and 'free_memory_list' in c[1].get('cls', '')]
            if not allocs:
                problems.append('grows but does not allocate from a free list afterwards')
                continue
            recv = allocs[-1][0][:allocs[-1][0].rfind('.allocate(')]
            node = not allocs[-1][1].get('args')
            if node:
                emp = [(c, tk) for c, tk in s.conds if c.startswith(recv + '.empty()') or re.match(r'^\(0 == %s\.capacity\(\)\)$' % re.escape(recv), c)
                       or c == '%s.capacity()' % recv]
                okk = any((c.endswith('.empty()') and tk) or (c.startswith('(0 ==') and tk) or (c.endswith('.capacity()') and not tk) for c, tk in emp)
                if not okk:
                    others = [c for c, tk in s.conds if recv in c]
                    problems.append('asks the block source for memory on a path where %s was not found empty (conditions on the list: %s)'
                                    % (recv, others[:2] or 'none'))
            else:
                # array: an earlier search on the same list must have failed, or the list was empty
                first = [c for c in s.calls[:gi] if c[0].startswith(recv + '.allocate(')]
                failed = any((('R' not in c) and tk is False) for c, tk in []) 
                tested_null = False
                from rules.c03 import _as_null_test
                for ct, tk in s.cond_terms:
                    pos, inner = _as_null_test(ct)
                    cs = sym.canon(inner, {}) if inner is not None else ''
                    if (recv + '.allocate(') in cs and (tk != pos):
                        tested_null = True      # the search result was found null on this path
                    if cs == recv + '.empty()' and (tk == pos):
                        tested_null = True
                if not tested_null:
                    problems.append('array path grows although no search on %s failed before' % recv)
        inst = '%s [%s]' % (f.display, db.config)
        site = {'function': '%s::%s' % (cls_template(f.cls), f.short + ('(n)' if len(f.params) > 1 or 'array' in f.short else '')), 'role': 'growth only when the list cannot serve'}
        n += 1
        if problems:
            run.violation('R-GROW', inst, f.loc, '; '.join(sorted(set(problems))[:2]), site=site)
        elif grow_paths == 0:
            run.violation('R-GROW', inst, f.loc, 'no path reaches the block source: the pool cannot grow (anchor vanished?)', site=site)
        else:
            run.ok('R-GROW', inst, f.loc, '%d growing path(s), each behind an empty list / failed search' % grow_paths)
    return n


def _list_bytes(db, f, roles, which):
    """byte terms handed to FreeList::allocate(n) / FreeList::deallocate(ptr, n) on the returning paths of f, helpers of the pool
    (same class, or the pool's members when f is a traits member) inlined"""
    def inl(fn, callee, t):
        if len(callee.blocks) > 48:
            return False
        cc = cls_template(callee.cls)
        return cc in ('memory_pool', 'memory_pool_collection') and callee.short in (
            'allocate_array', 'try_allocate_array', 'deallocate_array', 'try_deallocate_array', 'node_size') and callee.key != fn.key
    out = set()
    for s in fwd.summarize(f, db=db, roles=roles, inline_pred=inl, no_forward=True):
        if s.end != 'return':
            continue
        for c in s.calls:
            t = c[1]
            if t.get('k') == 'call' and t.get('short') == which and 'free_memory_list' in t.get('cls', ''):
                a = c02._call_args(c[0], which)
                want = 1 if which == 'allocate' else 2
                if len(a) == want and a[-1] != '':
                    out.add(a[-1])
    return out


def check_array_bytes(run, db):
    """an array is released with the byte count it was acquired with: the term given to FreeList::deallocate(ptr, bytes) by each
    release function equals the term given to FreeList::allocate(bytes) by its acquire sibling (member functions of the pools and
    their allocator_traits / composable traits)"""
    n = 0
    groups = {}
    for f in db.fns.values():
        if f.pattern:
            continue
        ct = cls_template(f.cls)
        if ct in ('allocator_traits', 'composable_allocator_traits'):
            inner = cls_template(f.cls[f.cls.index('<') + 1:])
            if inner not in ('memory_pool', 'memory_pool_collection'):
                continue
            kind = 'traits'
        elif ct in ('memory_pool', 'memory_pool_collection'):
            kind = 'member'
        else:
            continue
        if f.short in ('allocate_array', 'try_allocate_array', 'deallocate_array', 'try_deallocate_array'):
            groups.setdefault((f.cls, kind), []).append(f)
    for (cls, kind), fns in sorted(groups.items()):
        for acq_name, rel_name in (('allocate_array', 'deallocate_array'), ('try_allocate_array', 'try_deallocate_array')):
            for a in [f for f in fns if f.short == acq_name]:
                off = 1 if kind == 'traits' else 0
                # the release sibling has one more parameter (the pointer)
                rels = [f for f in fns if f.short == rel_name and len(f.params) == len(a.params) + 1]
                if not rels:
                    continue
                r = rels[0]
                names = ['count', 'size', 'alignment']
                ra = {off + i: names[i] for i in range(len(a.params) - off)}
                rr = {off: 'ptr'}
                rr.update({off + 1 + i: names[i] for i in range(len(a.params) - off)})
                if off:
                    ra[0] = rr[0] = 'state'
                try:
                    A, R = _list_bytes(db, a, ra, 'allocate'), _list_bytes(db, r, rr, 'deallocate')
                except sym.PathLimit as e:
                    run.broke(str(e))
                    continue
                if not A and not R:
                    continue
                if 'small_node_pool' in cls and (not A or not R):
                    continue        # this pool type does not support arrays: the array members assert / return null
                n += 1
                inst = '%s <-> %s [%s]' % (a.display, rel_name, db.config)
                site = {'function': '%s::%s' % (cls_template(cls) if kind == 'member' else cls_template(cls) + '<' + cls_template(cls[cls.index('<') + 1:]) + '>', acq_name),
                        'role': 'array released with the bytes it was acquired with'}
                if A != R:
                    run.violation('R-UNLINK.bytes', inst, a.loc, 'the free list is asked for %s bytes on allocation but given back %s bytes on deallocation: '
                                  'the node counts of an allocate/deallocate cycle differ' % (sorted(A) or 'no', sorted(R) or 'no'), site=site)
                else:
                    run.ok('R-UNLINK.bytes', inst, a.loc, 'FreeList::allocate(%s) <-> FreeList::deallocate(ptr, %s)' % (sorted(A)[0], sorted(R)[0]))
    return n


def check_list_moves(run, db):
    """free nodes stay available across moves of the lists that hold them: move construction / assignment / swap of the three free
    lists transfer every field, leave the source empty, keep counter and membership together and exchange the counters
    (rules R-MOVE.1/.2/.6/.9 of C12 restricted to the free lists, reported as R-UNLINK.move)"""
    from rules import c12, c05
    rr = c05._Renamed(run, 'R-UNLINK.move')
    n = 0
    for cls, ops in sorted(c12.classes_with_moves(db).items()):
        if cls not in db.classes or cls_template(cls) not in unlink.LISTS:
            continue
        n += 1
        c12.check_coverage(rr, db, cls, ops)
        c12.check_emptiness(rr, db, cls, ops)
        c12.check_counter_membership(rr, db, cls, ops)
        c12.check_swap_exchanges(rr, db, cls, ops)
    return n


def run(run):
    run.rule('R-UNLINK', 'acquire/release node-count agreement and capacity_ bookkeeping', floor=10)
    run.rule('R-RUN', 'the array search accounts the found interval exactly (one node at the start and after a gap, + node size per contiguous node) and stops at the first fit', floor=2)
    run.rule('R-UNLINK.bytes', 'array acquire and release siblings of the pools hand the free list the same byte count', floor=10)
    run.rule('R-UNLINK.move', 'counter and nodes of the free lists travel together through move and swap', floor=6)
    run.rule('R-GROW', 'growth only when the free list is empty (node) or the search failed (array)', floor=10)
    run.rule('R-UNLINK.check', 'the request is checked before a node is taken off a list (shared rule R-THROW.6 of C03)', floor=0)
    run.explanation = ('"Exactly the memory that was taken becomes available again" is decided as term agreement between what allocate(n) unlinks '
                       '(ceil(n/node_size) nodes, from the search loop) and what deallocate(ptr,n) links, plus exact capacity_ bookkeeping; '
                       '"never grows while a node is free" as control dependence of the block-source call on the list being empty.')
    run.assumptions += ['that sorted re-insertion keeps runs findable and fragmentation effects over histories are not decided']
    for cfg in common.configs(run):
        db = build.load_db(cfg, log=run.log)
        run.count('functions_analysed', len(db.fns))
        if unlink.check_unlink(run, db) < 6:
            run.broke('free list functions not found [%s]' % cfg)
        if unlink.check_cursor_reset(run, db) < 3:
            run.broke('ordered list constructors / swap not found [%s]' % cfg)
        if c02.check_run(run, db) < 2:
            run.broke('array search functions not found [%s]' % cfg)
        if check_array_bytes(run, db) < 6:
            run.broke('array siblings of the pools not found [%s]' % cfg)
        # no node is taken off a free list before the last check that can still refuse the request has passed: a refusal after the
        # node was taken drops it for good (shared rule R-THROW.6 of C03)
        from rules import c03, c05
        c03.check_checks_first(c05._Renamed(run, 'R-UNLINK.check'), db)
        if check_list_moves(run, db) < 2:
            run.broke('free lists with move operations not found [%s]' % cfg)
        if check_growth(run, db) < 8:
            run.broke('pool allocation functions not found [%s]' % cfg)
    fixtures.expect_fire(run, 'c04_bad.cpp', _fixture, 'R-GROW')


def _fixture(db):
    from engine import report
    fired = set()
    for f in db.fns.values():
        if f.cls.startswith('verif_fix::') and f.short.startswith('allocate'):
            r = report.Run('C04', 'quick')
            check_growth(r, db, [f])
            if any(o['verdict'] != 'ok' for o in r.obligations):
                fired.add(f.cls.split('::')[-1])
    return fired
