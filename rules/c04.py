"""C04 - memory returned to a pool is reusable: no capacity is lost over any history (structural clauses).

R-UNLINK    acquire/release node-count agreement and capacity_ bookkeeping of the free lists (rules/unlink.py)
R-GROW      a pool asks its block source for memory only on paths where the matching free list is empty (single node)
            resp. where the array search on the existing memory returned null (arrays)
"""
import re

from engine import build, fwd, sym, fixtures, flow
from engine.facts import cls_template, strip_ns, top_term, tstr
from rules import common, unlink, c02

LEVEL = 'other'


def inline_helpers(f, callee, t):
    return callee.cls == f.cls and len(callee.blocks) <= 16 and callee.key != f.key and not callee.rec.get('constm')


def is_growth(t):
    return t.get('k') == 'call' and t.get('short') == 'allocate_block' and cls_template(t.get('cls', '')) == 'memory_arena'


def check_growth(run, db, fns=None):
    n = 0
    if fns is None:
        fns = []
        for ct in ('memory_pool', 'memory_pool_collection'):
            for f in db.find(cls_t=ct):
                if f.short in ('allocate_node', 'allocate_array') and f.noexcept != 'yes':
                    fns.append(f)
    for f in fns:
        try:
            S = fwd.summarize(f, db=db, inline_pred=inline_helpers, no_forward=True, roles={})
        except sym.PathLimit as e:
            run.broke(str(e))
            continue
        problems = []
        grow_paths = 0
        for s in S:
            if s.end != 'return':
                continue
            g = [c for c in s.calls if is_growth(c[1])]
            if not g:
                continue
            grow_paths += 1
            gi = s.calls.index(g[0])
            # the list the result finally comes from
            allocs = [c for c in s.calls if re.search(r'\.allocate\(', c[0]) and 'free_memory_list' in c[1].get('cls', '')]
            if not allocs:
                problems.append('grows but does not allocate from a free list afterwards')
                continue
            recv = allocs[-1][0][:allocs[-1][0].rfind('.allocate(')]
            node = not allocs[-1][1].get('args')
            if node:
                emp = [(c, tk) for c, tk in s.conds if c.startswith(recv + '.empty()') or re.match(r'^\(0 == %s\.capacity\(\)\)$' % re.escape(recv), c)
                       or c == '%s.capacity()' % recv]
                okk = any((c.endswith('.empty()') and tk) or (c.startswith('(0 ==') and tk) or (c.endswith('.capacity()') and not tk) for c, tk in emp)
                if not okk:
                    others = [c for c, tk in s.conds if recv in c]
                    problems.append('asks the block source for memory on a path where %s was not found empty (conditions on the list: %s)'
                                    % (recv, others[:2] or 'none'))
            else:
                # array: an earlier search on the same list must have failed, or the list was empty
                first = [c for c in s.calls[:gi] if c[0].startswith(recv + '.allocate(')]
                failed = any((('R' not in c) and tk is False) for c, tk in []) 
                tested_null = False
                from rules.c03 import _as_null_test
                for ct, tk in s.cond_terms:
                    pos, inner = _as_null_test(ct)
                    cs = sym.canon(inner, {}) if inner is not None else ''
                    if (recv + '.allocate(') in cs and (tk != pos):
                        tested_null = True      # the search result was found null on this path
                    if cs == recv + '.empty()' and (tk == pos):
                        tested_null = True
                if not tested_null:
                    problems.append('array path grows although no search on %s failed before' % recv)
        inst = '%s [%s]' % (f.display, db.config)
        site = {'function': '%s::%s' % (cls_template(f.cls), f.short + ('(n)' if len(f.params) > 1 or 'array' in f.short else '')), 'role': 'growth only when the list cannot serve'}
        n += 1
        if problems:
            run.violation('R-GROW', inst, f.loc, '; '.join(sorted(set(problems))[:2]), site=site)
        elif grow_paths == 0:
            run.violation('R-GROW', inst, f.loc, 'no path reaches the block source: the pool cannot grow (anchor vanished?)', site=site)
        else:
            run.ok('R-GROW', inst, f.loc, '%d growing path(s), each behind an empty list / failed search' % grow_paths)
    return n


def run(run):
    run.rule('R-UNLINK', 'acquire/release node-count agreement and capacity_ bookkeeping', floor=10)
    run.rule('R-RUN', 'the array search accounts the found interval exactly (one node at the start and after a gap, + node size per contiguous node) and stops at the first fit', floor=2)
    run.rule('R-GROW', 'growth only when the free list is empty (node) or the search failed (array)', floor=10)
    run.explanation = ('"Exactly the memory that was taken becomes available again" is decided as term agreement between what allocate(n) unlinks '
                       '(ceil(n/node_size) nodes, from the search loop) and what deallocate(ptr,n) links, plus exact capacity_ bookkeeping; '
                       '"never grows while a node is free" as control dependence of the block-source call on the list being empty.')
    run.assumptions += ['that sorted re-insertion keeps runs findable and fragmentation effects over histories are not decided']
    for cfg in common.configs(run):
        db = build.load_db(cfg, log=run.log)
        run.count('functions_analysed', len(db.fns))
        if unlink.check_unlink(run, db) < 6:
            run.broke('free list functions not found [%s]' % cfg)
        if c02.check_run(run, db) < 2:
            run.broke('array search functions not found [%s]' % cfg)
        if check_growth(run, db) < 8:
            run.broke('pool allocation functions not found [%s]' % cfg)
    fixtures.expect_fire(run, 'c04_bad.cpp', _fixture, 'R-GROW')


def _fixture(db):
    from engine import report
    fired = set()
    for f in db.fns.values():
        if f.cls.startswith('verif_fix::') and f.short.startswith('allocate'):
            r = report.Run('C04', 'quick')
            check_growth(r, db, [f])
            if any(o['verdict'] != 'ok' for o in r.obligations):
                fired.add(f.cls.split('::')[-1])
    return fired
