"""C12 - moving an allocator transfers all its memory; the moved-from object is harmless.

R-MOVE.1  coverage: every base and field is transferred, swapped or re-derived by move ctor / move assignment / swap
R-MOVE.2  emptiness: every pointer (and listed state counter) copied from the source is reassigned in the source, on the same path
R-MOVE.3  the destructor is safe on the moved-from value (no release call on a nulled field without a dominating test)
R-MOVE.4  release-before-overwrite: move assignment is tmp+swap or performs the destructor's release before overwriting
R-MOVE.5  self-address re-derivation: a field initialised from the address of a member of *this is never copied
R-MOVE.6  counter-membership: a guard `empty()` that skips the transfer of links is sound only if every member that
          lowers the counter also unlinks on that path
"""
import re

from engine import build, fwd, sym, fixtures, flow
from engine.facts import cls_template, strip_ns, top_term, subterms, tstr, split_qual
from rules import common

LEVEL = 'other'

# state counters that describe ownership (besides pointer fields, which are found from the class facts)
STATE_COUNTERS = {
    'detail::free_memory_list': ['capacity_'],
    'detail::ordered_free_memory_list': ['capacity_'],
    'detail::small_free_memory_list': ['capacity_'],
    'detail::object_leak_checker': ['allocated_'],
    'iteration_allocator': ['cur_'],
    'detail::free_list_array': ['no_elements_'],
}
# fields that are configuration, not ownership: copied and kept in the source (reason)
CONFIG_FIELDS = {'node_size_': 'node size is a property of the list, harmless in the source',
                 'block_size_': 'block size is configuration',
                 'min_alignment_': 'configuration', 'marker_': 'marker is only used together with stack_'}
INTEGER_TYPES = ('unsigned long', 'std::size_t', 'size_t', 'unsigned int', 'unsigned char', 'unsigned short', 'long', 'int')
LINK_HELPERS = ('xor_list_set', 'xor_list_change', 'xor_list_insert', 'list_set_next', 'xor_link_block', 'insert_chunks')


def inline_same_class(fn, callee, t):
    """private helpers of the same class (an extracted common part of the special members) are seen through"""
    return callee.cls == fn.cls and callee.kind == 'method' and callee.key != fn.key and len(callee.blocks) <= 30 and bool(fn.cls)


def classes_with_moves(db):
    _DB_FOR_TMP_SWAP[0] = db
    out = {}
    for f in db.fns.values():
        if f.pattern or f.rec.get('defaulted'):
            continue
        if f.kind in ('move-ctor', 'move-assign') and f.cls.startswith('foonathan::memory'):
            out.setdefault(f.cls, {})[f.kind] = f
    for f in db.find(short='swap'):
        if len(f.params) == 2 and f.params[0]['t'] == f.params[1]['t'] and f.params[0]['t'].endswith('&'):
            cls = f.params[0]['t'][:-2].strip()
            if cls.startswith('foonathan::memory') and cls in db.classes:
                out.setdefault(cls, {})['swap'] = f
    for cls in out:
        for f in db.fns.values():
            if f.cls == cls and f.kind == 'dtor':
                out[cls]['dtor'] = f
    return out


def field_mentions(db, fn, depth=0, seen=None):
    """set of (root, field, mode): root is 'this' or a parameter name, mode 'w' (assigned, initialised, or handed to a
    call that can modify it) or 'r' (only read); follows calls to members of the same class"""
    seen = seen or set()
    if fn.key in seen:
        return set()
    seen = seen | {fn.key}
    out = set()
    # reference locals bound to (a part of) this / a parameter are names for that part
    alias = {}
    for e in fn.events():
        if e['ev'] == 'decl':
            for v in e['vars']:
                if v.get('ref') and isinstance(v.get('init'), dict):
                    alias[v['did']] = v['init']

    def unalias(t, depth=0):
        t = sym.strip_casts(t)
        if isinstance(t, dict) and t.get('k') == 'local' and t.get('did') in alias and depth < 4:
            return unalias(alias[t['did']], depth + 1)
        return t

    def root_of(t):
        t = unalias(t)
        while isinstance(t, dict) and t.get('k') in ('un',) and t['op'] in ('*', '&'):
            t = sym.strip_casts(t['e'])
        if isinstance(t, dict) and t.get('k') == 'this':
            return 'this'
        if isinstance(t, dict) and t.get('k') == 'param':
            return t['name']
        if isinstance(t, dict) and t.get('k') == 'local':
            return 'local:' + t['name']
        return None

    def members(t, mode):
        """outermost member chains rooted at this/param in term t"""
        t0 = unalias(t)
        if not isinstance(t0, dict):
            return
        if t0.get('k') == 'member':
            # innermost field directly on the root object
            cur = t0
            while isinstance(cur, dict) and cur.get('k') == 'member':
                r = root_of(cur.get('base'))
                if r:
                    out.add((r, cur['name'], mode))
                    break
                cur = unalias(cur.get('base'))
            else:
                walk(cur, 'r')
            return
        if t0.get('k') == 'un' and t0['op'] in ('*', '&'):
            # taking the address lets the field escape: whoever gets the pointer may write through it
            members(t0['e'], 'w' if t0['op'] == '&' else mode)
            return
        if t0.get('k') == 'bin' and t0.get('op') == '[]':
            members(t0['l'], mode)
            walk(t0['r'], 'r')
            return
        walk(t0, 'r')

    def walk(t, mode='r'):
        t = sym.strip_casts(t)
        if not isinstance(t, dict):
            return
        k = t.get('k')
        if k == 'member' or (k == 'un' and t['op'] in ('*', '&')) or (k == 'bin' and t.get('op') == '[]'):
            members(t, mode)
            return
        if k == 'call':
            callee = db.fns.get(t.get('key'))
            same = callee is not None and callee.cls and t.get('cls') == callee.cls and depth < 3
            recv_root = root_of(t.get('recv')) if 'recv' in t else ('this' if t.get('cls') == fn.cls and not t.get('static') else None)
            if same and recv_root and (callee.cls == fn.cls or True) and callee.cls in (fn.cls,) + tuple(p['t'].replace(' &', '').replace('const ', '') for p in fn.params):
                for (rr, fld, md) in field_mentions(db, callee, depth + 1, seen):
                    if rr == 'this':
                        out.add((recv_root, fld, md))
            elif 'recv' in t:
                members(t['recv'], 'r' if t.get('constm') else 'w')
            for i, a in enumerate(t.get('args', [])):
                # an argument handed to a non-const-accessor call may be modified through the reference
                members(a, 'w' if not t.get('constm') or t.get('short') in ('adl_swap', 'swap') else 'r')
                # a whole object (`*this`, `other`) handed to a helper: what the helper does to its parameter it does to that object
                ra = root_of(a)
                if ra and callee is not None and depth < 3 and i < len(callee.params) and not callee.pattern:
                    pn = callee.params[i]['name']
                    for (rr, fld, md) in field_mentions(db, callee, depth + 1, seen):
                        if rr == pn:
                            out.add((ra, fld, md))
            return
        if k == 'construct':
            for a in t.get('args', []):
                members(a, 'r')
            return
        for v in t.values():
            if isinstance(v, dict):
                walk(v, mode)
            elif isinstance(v, list):
                for x in v:
                    if isinstance(x, dict):
                        walk(x, mode)

    for e in fn.events():
        if e['ev'] in ('assign', 'incdec'):
            members(e['lhs'], 'w')
            if 'rhs' in e:
                walk(e['rhs'])
        elif e['ev'] == 'init':
            if e.get('field') and not e.get('implicit'):
                out.add(('this', e['field'], 'w'))
            if e.get('delegating') and isinstance(e.get('e'), dict) and e['e'].get('k') == 'construct' and depth < 3:
                # a delegating constructor: what the target constructor initialises, this one initialises
                tgt = db.fns.get(e['e'].get('key'))
                if tgt is not None:
                    for (rr, fld, md) in field_mentions(db, tgt, depth + 1, seen):
                        if rr == 'this':
                            out.add(('this', fld, md))
            walk(e.get('e'))
        elif e['ev'] == 'decl':
            for v in e['vars']:
                if v.get('ref') and 'const' not in str(v.get('t', '')).split('&')[0]:
                    members(v.get('init'), 'w')     # a mutable reference to the field: whoever holds it may write through it
                else:
                    walk(v.get('init'))
        elif e['ev'] in ('expr', 'return'):
            walk(e.get('e'))
    for b in fn.blocks.values():
        t = b.get('term')
        if t and isinstance(t.get('cond'), dict):
            walk(t['cond'])
    return out


_DB_FOR_TMP_SWAP = [None]


def is_tmp_swap(fn):
    """move assignment written as: T tmp(move(other)); swap(*this, tmp);  - or with the swap spelled out member by member:
    every data member and every non-empty base of *this exchanged (swap / adl_swap) with the same part of tmp"""
    tmp = None
    for e in fn.events():
        if e['ev'] == 'decl':
            for v in e['vars']:
                init = v.get('init') or {}
                if v['t'] == fn.cls and init.get('k') == 'construct' and init.get('ctor') == 'move':
                    tmp = v['did']
    if tmp is None:
        return False
    parts_this, parts_tmp = set(), set()
    for e, t in flow.call_events(fn):
        if t.get('short') in ('swap', 'adl_swap') and len(t.get('args', [])) == 2:
            a, b = t['args']
            if any(s.get('k') == 'this' for s in subterms(a)) and any(s.get('did') == tmp for s in subterms(b)):
                ka, kb = _part_of(a, None), _part_of(b, tmp)
                if ka == '*' and kb == '*':
                    return True
                if ka is not None and ka == kb:
                    parts_this.add(ka)
    db = _DB_FOR_TMP_SWAP[0]
    crec = db.classes.get(fn.cls) if db is not None else None
    if not parts_this or crec is None:
        return False
    need = {'f:' + f['name'] for f in crec['fields'] if not f.get('static')}
    for bt in [b['t'] for b in crec['bases']]:
        bc = db.classes.get(bt)
        if bc is not None and not bc['fields'] and not bc['bases']:
            continue
        if bc is None and (bt.startswith('std::') or 'integral_constant' in bt):
            continue
        need.add('b:' + strip_ns(bt))
    return need <= parts_this


def _part_of(t, tmp_did):
    """which part of the object (this, or the local tmp_did) a swap argument names: '*' the whole object, 'f:<member>', 'b:<base type>'"""
    cast_to = None
    x = t
    while isinstance(x, dict) and x.get('k') in ('cast', 'paren') and isinstance(x.get('e'), dict):
        if x.get('k') == 'cast' and x.get('to') and cast_to is None:
            cast_to = str(x['to'])
        x = x['e']
    if not isinstance(x, dict):
        return None
    root_ok = lambda r: isinstance(r, dict) and ((tmp_did is None and (r.get('k') == 'this' or (r.get('k') == 'un' and r.get('op') == '*' and sym.strip_casts(r.get('e') or {}).get('k') == 'this')))
                                               or (tmp_did is not None and r.get('k') == 'local' and r.get('did') == tmp_did))
    if x.get('k') == 'member' and root_ok(sym.strip_casts(x.get('base') or {})):
        return 'f:' + x['name']
    if root_ok(x):
        if cast_to:
            c = cast_to.replace('&', '').replace('const ', '').strip()
            return 'b:' + strip_ns(c)
        return '*'
    return None


def base_moved(fn, base_t, params):
    for e in fn.events():
        if e['ev'] == 'init' and e.get('base') == base_t and not e.get('implicit'):
            if any(s.get('k') == 'param' for s in subterms(e['e'])):
                return True
        t = top_term(e)
        if t is not None and t.get('k') == 'call' and t.get('short') in ('operator=', 'adl_swap', 'swap'):
            if t.get('cls') == base_t and any(s.get('k') == 'param' for s in subterms(t)):
                return True
            if t.get('short') in ('adl_swap', 'swap') and base_t in str(t.get('args')):
                return True
    return False


def check_coverage(run, db, cls, ops):
    crec = db.classes.get(cls)
    if not crec:
        return
    fields = [f['name'] for f in crec['fields']]
    bases = [b['t'] for b in crec['bases']]
    ct = cls_template(cls)
    for kind in ('move-ctor', 'move-assign', 'swap'):
        fn = ops.get(kind)
        if fn is None:
            continue
        inst = '%s [%s]' % (fn.display, db.config)
        site = {'function': '%s::%s' % (ct, kind), 'role': 'coverage'}
        if kind == 'move-assign' and is_tmp_swap(fn):
            run.ok('R-MOVE.1', inst, fn.loc, 'tmp + swap idiom')
            continue
        m = field_mentions(db, fn)
        missing = []
        if kind == 'swap':
            a, b = fn.params[0]['name'], fn.params[1]['name']
            for f in fields:
                if (a, f, 'w') not in m or (b, f, 'w') not in m:
                    missing.append(f)
        else:
            other = fn.params[0]['name'] if fn.params else 'other'
            for f in fields:
                if ('this', f, 'w') not in m:
                    missing.append(f)
        for bt in bases:
            bc = db.classes.get(bt)
            # empty bases (EBO tags, stateless allocators) carry nothing
            if bc is not None and not bc['fields'] and not bc['bases']:
                continue
            if bc is None and (bt.startswith('std::') or 'integral_constant' in bt):
                continue
            if not base_moved(fn, bt, fn.params):
                missing.append('base ' + strip_ns(bt))
        # a scalar that is taken over on one path only (a conditional transfer) is not transferred
        cond_missing = []
        if kind in ('move-ctor', 'move-assign') and not missing:
            scalars = [f['name'] for f in crec['fields'] if (f.get('t') in INTEGER_TYPES or f.get('pointer')) and not f.get('static')]
            try:
                S = [x for x in fwd.summarize(fn, db=db, roles={0: 'other'}, inline_pred=inline_same_class) if x.end == 'return']
            except sym.PathLimit:
                S = []
            for F in scalars:
                wrote = [('this.' + F) in x.fields or any(w[0] == 'this.' + F for w in x.writes) for x in S]
                helper = [any(c[1].get('k') == 'call' and c[1].get('cls') == cls and c[1].get('short') not in ('operator=',) for c in x.calls) for x in S]
                # a path that has established that the source holds nothing (other.empty(), other.capacity_ == 0) has nothing to take over
                def source_empty(x):
                    for c, tk in x.conds:
                        if '$other' not in c:
                            continue
                        if tk and (c.endswith('.empty()') or re.search(r'\$other\.\w+ == 0\)$|^\(0 == \$other\.\w+\)$', c) or re.match(r'^!\(\$other\.\w+\)$', c)):
                            return True
                        if not tk and re.match(r'^\$other\.\w+$', c):
                            return True
                    return False
                if any(wrote) and any(not w and not h and not source_empty(x) for w, h, x in zip(wrote, helper, S)):
                    cond_missing.append(F)
        if cond_missing:
            run.violation('R-MOVE.1', inst, fn.loc, 'taken over from the source on some paths only: %s (a conditional transfer leaves the new owner with its own old value '
                          'for memory that was handed out under the source\'s)' % ', '.join(cond_missing), site=dict(site, role='coverage: conditional ' + ','.join(cond_missing)))
        elif missing:
            run.violation('R-MOVE.1', inst, fn.loc, 'not transferred: %s' % ', '.join(missing),
                          site=dict(site, role='coverage: ' + ','.join(missing)))
        else:
            run.ok('R-MOVE.1', inst, fn.loc, '%d field(s), %d base(s) handled' % (len(fields), len(bases)))


def pointer_fields(crec):
    return [f['name'] for f in crec['fields'] if f.get('pointer')]


def check_emptiness(run, db, cls, ops):
    crec = db.classes.get(cls)
    ct = cls_template(cls)
    must_reset = set(pointer_fields(crec)) | set(STATE_COUNTERS.get(ct, []))
    for kind in ('move-ctor', 'move-assign'):
        fn = ops.get(kind)
        if fn is None or (kind == 'move-assign' and is_tmp_swap(fn)):
            continue
        other = fn.params[0]['name']
        # small const accessors of the same class (empty(), capacity()) are inlined so that a guard like
        # `other.empty()` is seen as the comparison on the field it reads
        S = [s for s in fwd.summarize(fn, db=db, inline_pred=lambda a, c, t: c.cls == cls and c.key != a.key and
                                      ((c.rec.get('constm') and len(c.blocks) <= 4) or (c.kind == 'method' and not c.rec.get('constm') and len(c.blocks) <= 30)))
             if s.end == 'return']
        problems = []
        for s in S:
            known_zero = set()
            for c, tk in s.conds:
                m = re.match(r'^\(0 == \$%s\.(\w+)\)$' % other, c) or re.match(r'^\(\$%s\.(\w+) == 0\)$' % other, c)
                if m and tk:
                    known_zero.add(m.group(1))
                m = re.match(r'^\$%s\.(\w+)$' % other, c) or re.match(r'^\(0 != \$%s\.(\w+)\)$' % other, c) \
                    or re.match(r'^\(\$%s\.(\w+) != 0\)$' % other, c)
                if m and not tk:
                    known_zero.add(m.group(1))
            taken = {}
            for w in s.writes:
                lhs, rhs = w[0], w[1]
                if lhs.startswith('this.'):
                    f = lhs[5:]
                    if rhs == '$%s.%s' % (other, f):
                        taken[f] = True
            reset = set()
            for w in s.writes:
                lhs, rhs = w[0], w[1]
                if lhs.startswith('$%s.' % other):
                    f = lhs[len(other) + 2:]
                    if rhs != 'this.' + f:
                        reset.add(f)
            for f in taken:
                if f in must_reset and f not in reset and f not in known_zero:
                    problems.append('%s is copied from the source but the source keeps it (path: %s)' % (f, ' & '.join(s.cond_key()) or 'unconditional'))
        inst = '%s [%s]' % (fn.display, db.config)
        if problems:
            fl = sorted({p.split(' ')[0] for p in problems})
            run.violation('R-MOVE.2', inst, fn.loc, '; '.join(sorted(set(problems))[:3]),
                          site={'function': '%s::%s' % (ct, kind), 'role': 'source reset: ' + ','.join(fl)})
        else:
            run.ok('R-MOVE.2', inst, fn.loc, 'every copied owner field (%s) is reset in the source' % ', '.join(sorted(must_reset)) if must_reset else 'no owner fields copied')


RELEASE_SHORTS = ('deallocate_block', 'virtual_memory_release', 'virtual_memory_decommit', 'deallocate_node', 'deallocate_array',
                  'unwind', 'shrink_to_fit', 'heap_dealloc', 'free')


def release_events(db, fn):
    """(callee short, canonical args, guard conditions) of release calls made directly by fn"""
    out = []
    for s in fwd.summarize(fn, db=db, inline_pred=inline_same_class):
        if s.end != 'return':
            continue
        for c in list(s.calls) + [(repr(fc), fc.term, fc.event, 0) for fc in s.fwd]:
            t = c[1]
            if t.get('k') == 'call' and t.get('short') in RELEASE_SHORTS:
                out.append((t['short'], sym.canon(t), s.cond_key(), t))
    return out


def check_release_before_overwrite(run, db, cls, ops):
    fn = ops.get('move-assign')
    dtor = ops.get('dtor')
    ct = cls_template(cls)
    if fn is None or dtor is None:
        return
    inst = '%s [%s]' % (fn.display, db.config)
    rel_d = release_events(db, dtor)
    if not rel_d:
        return
    if is_tmp_swap(fn):
        run.ok('R-MOVE.4', inst, fn.loc, 'tmp + swap: the old resources die with tmp')
        return
    want = {(r[0], r[1]) for r in rel_d}
    # the assignment must execute the same releases, before the first write to a field they read
    S = [s for s in fwd.summarize(fn, db=db, inline_pred=inline_same_class) if s.end == 'return']
    problems = []
    for sh, canon_call in sorted(want):
        found_all = True
        for s in S:
            pos = None
            allc = list(s.calls) + [(repr(fc), fc.term, fc.event, 0) for fc in s.fwd]
            for c in allc:
                if c[1].get('k') == 'call' and c[1].get('short') == sh and sym.canon(c[1]) == canon_call:
                    pos = c[2]
            if pos is None:
                # acceptable only if the destructor's guard for this release is false on this path
                guards = [r[2] for r in rel_d if (r[0], r[1]) == (sh, canon_call)]
                skipped = any(any(('not(%s)' % g) in s.cond_key() or (g.startswith('not(') and g[4:-1] in s.cond_key()) for g in gs) for gs in guards if gs)
                if not skipped:
                    found_all = False
        if not found_all:
            problems.append('the destructor releases with `%s` but the move assignment overwrites the fields without it: the old resource is leaked' % canon_call[:100])
    if problems:
        run.violation('R-MOVE.4', inst, fn.loc, '; '.join(problems[:2]), site={'function': '%s::move-assign' % ct, 'role': 'release before overwrite'})
    else:
        run.ok('R-MOVE.4', inst, fn.loc, 'performs the destructor\'s release(s) %s first' % sorted(x[0] for x in want))


def moved_from_state(db, cls, ops):
    """field -> term written into the source by the move constructor"""
    fn = ops.get('move-ctor')
    st = {}
    if fn is None:
        return st
    other = fn.params[0]['name']
    for e in fn.events():
        if e['ev'] == 'assign' and e['op'] == '=':
            k = sym.canon(e['lhs'])
            if k.startswith('$%s.' % other):
                # chained assignment a = b = nullptr: rhs may itself be an assignment
                rhs = e['rhs']
                while isinstance(rhs, dict) and rhs.get('k') == 'bin' and rhs.get('op') == '=':
                    rhs = rhs['r']
                st['this.' + k[len(other) + 2:]] = rhs
    return st


def check_dtor_on_empty(run, db, cls, ops):
    dtor = ops.get('dtor')
    ct = cls_template(cls)
    if dtor is None or 'move-ctor' not in ops:
        return
    st = moved_from_state(db, cls, ops)
    nulls = {k for k, v in st.items() if isinstance(sym.strip_casts(v), dict) and sym.strip_casts(v).get('null')}
    if not nulls:
        return
    from rules.c20 import dtor_releases_in_state
    problems = []
    # enumerate feasible paths under the moved-from state; flag release calls that receive a nulled field
    for p in sym.enum_paths(dtor, limit=500):
        feasible = True
        guarded = set()
        for it in p:
            if it[0] == 'br':
                cond, taken = it[1], it[2]
                c = sym.canon(cond)
                for n in nulls:
                    if c == n and taken:
                        feasible = False
                    if c == '!(%s)' % n and not taken:
                        feasible = False
                # cur_ < N with cur_ := N
                tv = _truth_under(cond, st)
                if tv is not None and tv != taken:
                    feasible = False
            elif it[0] == 'ev' and feasible:
                t = top_term(it[1])
                if t is not None and t.get('k') == 'call' and t.get('short') in RELEASE_SHORTS:
                    for a in t.get('args', []) + ([t['recv']] if 'recv' in t else []):
                        ca = sym.canon(a)
                        for n in nulls:
                            if ca == n or ca.startswith(n + '.') or ('(%s' % n) in ca and t.get('short').startswith('virtual_memory'):
                                problems.append('`%s` runs on the moved-from object with %s == nullptr' % (tstr(t)[:90], n[5:]))
            if not feasible:
                break
    inst = '%s [%s]' % (dtor.display, db.config)
    if problems:
        run.violation('R-MOVE.3', inst, dtor.loc, '; '.join(sorted(set(problems))[:2]),
                      site={'function': '%s::<dtor>' % ct, 'role': 'destructor on moved-from value'})
    else:
        run.ok('R-MOVE.3', inst, dtor.loc, 'no release call receives a field the move nulled (%s)' % ', '.join(sorted(n[5:] for n in nulls)))


def _truth_under(cond, st):
    t = sym.strip_casts(cond)
    if isinstance(t, dict) and t.get('k') == 'bin' and t['op'] in ('<', '>', '!=', '=='):
        def val(x):
            c = sym.canon(x)
            if c in st:
                return sym.canon(st[c])
            return c
        l, r = val(t['l']), val(t['r'])
        if l == r:
            return t['op'] == '=='
    return None


def check_self_address(run, db, cls, ops):
    """fields the ordinary constructor derives from the address of a member of *this"""
    ct = cls_template(cls)
    derived = {}
    for f in db.fns.values():
        if f.cls == cls and f.kind == 'ctor':
            for e in f.events():
                if e['ev'] == 'init' and e.get('field'):
                    v = e['e']
                    selfaddr = False
                    for s in subterms(v):
                        if s.get('k') == 'un' and s['op'] == '&' and sym.strip_casts(s['e']).get('k') == 'member' \
                                and sym.strip_casts(sym.strip_casts(s['e']).get('base') or {}).get('k') == 'this':
                            selfaddr = True
                        if s.get('k') == 'call' and s.get('cls') == cls and s.get('short') in ('begin_node', 'end_node'):
                            selfaddr = True
                    if selfaddr:
                        derived[e['field']] = sym.canon(v)
    if not derived:
        return
    for kind in ('move-ctor', 'swap', 'move-assign'):
        fn = ops.get(kind)
        if fn is None or (kind == 'move-assign' and is_tmp_swap(fn)):
            continue
        problems = []
        for s in fwd.summarize(fn, db=db, inline_pred=inline_same_class):
            for w in s.writes:
                lhs, rhs = w[0], w[1]
                m = re.match(r'^(this|\$\w+)\.(\w+)$', lhs)
                if m and m.group(2) in derived:
                    if re.search(r'\$\w+\.%s\b' % m.group(2), rhs):
                        problems.append('%s is copied (%s = %s) although it must point into the object itself' % (m.group(2), lhs, rhs))
        inst = '%s [%s]' % (fn.display, db.config)
        if problems:
            run.violation('R-MOVE.5', inst, fn.loc, '; '.join(sorted(set(problems))[:2]),
                          site={'function': '%s::%s' % (ct, kind), 'role': 'self-address re-derived'})
        else:
            run.ok('R-MOVE.5', inst, fn.loc, 're-derives %s' % ', '.join(sorted(derived)))


def _self_address_calls(fn):
    """calls in fn that hand the address of (a part of) *this to something else: an argument contains `this`, `&this->member` or
    `&this->accessor()`; returns {callee short name}"""
    out = set()
    lv = common.single_assignment_locals(fn)      # an address held in a local (or a helper's parameter) on its way into the call
    for e, t in flow.call_events(fn):
        if t.get('k') != 'call' or t.get('short', '').startswith('operator') or t.get('short') in ('move', 'forward', 'addressof'):
            continue
        for a in t.get('args', []):
            for st in subterms(common.expand_locals(a, lv)):
                if not isinstance(st, dict):
                    continue
                hit = False
                if st.get('k') == 'un' and st.get('op') == '&':
                    o = sym.strip_casts(st.get('e'))
                    if isinstance(o, dict) and o.get('k') == 'member' and sym.strip_casts(o.get('base') or {}).get('k') == 'this':
                        hit = True
                    if isinstance(o, dict) and o.get('k') == 'call' and ('recv' not in o or sym.strip_casts(o.get('recv') or {}).get('k') in ('this', None)
                                                                         or (sym.strip_casts(o.get('recv')).get('k') == 'un' and sym.strip_casts(sym.strip_casts(o.get('recv')).get('e')).get('k') == 'this')) \
                            and o.get('cls') and fn.cls and (o.get('cls') == fn.cls or True) and o.get('short', '').startswith('get_'):
                        hit = True
                if hit:
                    out.add(t.get('short'))
    return out


def check_self_registration(run, db, cls, ops):
    """an object that registers its own address with something it owns (the constructors hand `&get_x()` / `&member_` to a call)
    must do so again wherever the owned thing is replaced: move constructor and move assignment repeat the registration"""
    ct = cls_template(cls)
    reg = set()
    for f in db.fns.values():
        if f.cls == cls and f.kind in ('ctor', 'move-ctor'):
            reg |= _self_address_calls(f)
    if not reg:
        return
    for kind in ('move-ctor', 'move-assign'):
        fn = ops.get(kind)
        if fn is None or (kind == 'move-assign' and is_tmp_swap(fn)):
            continue
        have = _self_address_calls(fn)
        inst = '%s [%s]' % (fn.display, db.config)
        missing = sorted(reg - have)
        if missing:
            run.violation('R-MOVE.8', inst, fn.loc, 'the constructors register the object\'s own address through %s(...); this operation replaces what holds that '
                          'address but does not register again: the moved-in part keeps pointing into the source object' % ', '.join(missing),
                          site={'function': '%s::%s' % (ct, kind), 'role': 'own address registered again'})
        else:
            run.ok('R-MOVE.8', inst, fn.loc, 'registers its own address again through %s' % ', '.join(sorted(reg)))


def check_swap_exchanges(run, db, cls, ops):
    """swap leaves each side with the other side's counters: for every integer field F and every path through swap(a, b), the final
    value of a.F is the initial value of b.F and vice versa (swap / adl_swap of two lvalues exchanges their values)"""
    fn = ops.get('swap')
    crec = db.classes.get(cls)
    if fn is None or not crec:
        return
    ints = [f['name'] for f in crec['fields'] if f.get('t') in INTEGER_TYPES and not f.get('pointer')]
    if not ints:
        return
    roles = {0: 'a', 1: 'b'}
    try:
        S = [s for s in fwd.summarize(fn, db=db, roles=roles, inline_pred=inline_same_class) if s.end == 'return']
    except sym.PathLimit as e:
        run.broke(str(e))
        return
    probs = set()
    for s in S:
        for F in ints:
            for me, other in (('$a', '$b'), ('$b', '$a')):
                v = s.fields.get('%s.%s' % (me, F))
                if v is None:
                    continue        # coverage is R-MOVE.1
                got = sym.canon(v, roles)
                if got != '%s.%s' % (other, F):
                    probs.add('%s.%s ends up as %s, not as the other side\'s %s' % (me[1:], F, got[:50], F))
    inst = '%s [%s]' % (fn.display, db.config)
    if probs:
        run.violation('R-MOVE.9', inst, fn.loc, '; '.join(sorted(probs)[:2]) + ': the counter no longer matches the memory that was exchanged',
                      site={'function': '%s::swap' % cls_template(cls), 'role': 'counters exchanged'})
    else:
        run.ok('R-MOVE.9', inst, fn.loc, 'integer fields %s exchanged on all %d path(s)' % (', '.join(ints), len(S)))


def check_counter_membership(run, db, cls, ops):
    """if a move/swap skips relinking under `x.empty()`, then counter == 0 must imply "nothing linked":
    every member that lowers the counter unlinks something on the same path"""
    ct = cls_template(cls)
    counters = STATE_COUNTERS.get(ct, [])
    if ct not in ('detail::free_memory_list', 'detail::ordered_free_memory_list', 'detail::small_free_memory_list'):
        return
    guarded = []
    for kind in ('move-ctor', 'swap'):
        fn = ops.get(kind)
        if fn is None:
            continue
        for b in fn.blocks.values():
            t = b.get('term')
            if t and isinstance(t.get('cond'), dict):
                for s in subterms(t['cond']):
                    if s.get('k') == 'call' and s.get('short') in ('empty', 'capacity') and s.get('cls') == cls:
                        guarded.append(fn)
    if not guarded:
        run.ok('R-MOVE.6', '%s [%s]' % (strip_ns(cls), db.config), db.classes[cls]['loc'], 'links are transferred unconditionally')
        return
    # members lowering the counter
    offenders = []
    checked = 0
    for f in db.fns.values():
        if f.cls != cls or f.kind != 'method':
            continue
        for p in sym.enum_paths(f, limit=2000):
            lowers = False
            unlinks = False
            for it in p:
                if it[0] != 'ev':
                    continue
                e = it[1]
                if e['ev'] == 'incdec' and e['op'] == '--' and sym.canon(e['lhs']) == 'this.capacity_':
                    lowers = True
                if e['ev'] == 'assign' and e['op'] == '-=' and sym.canon(e['lhs']) == 'this.capacity_':
                    lowers = True
                if e['ev'] == 'assign' and e['op'] == '=':
                    l = sym.canon(e['lhs'])
                    if l.endswith('.next') or l.endswith('.prev') or l == 'this.first_':
                        unlinks = True
                t = top_term(e)
                if t is not None and t.get('k') == 'call' and t.get('short') in LINK_HELPERS:
                    unlinks = True
            if lowers:
                checked += 1
                if not unlinks:
                    offenders.append(f)
                    break
    inst = '%s [%s]' % (strip_ns(cls), db.config)
    if offenders:
        g = guarded[0]
        run.violation('R-MOVE.6', '%s [%s]' % (g.display, db.config), g.loc,
                      'the transfer of the chunk/node links is skipped when the source is `empty()`, but %s lowers the counter without unlinking: '
                      'a list whose nodes are all handed out still owns linked memory, which the move/swap drops'
                      % ', '.join(sorted({strip_ns(o.name) for o in offenders})),
                      site={'function': '%s::%s' % (ct, g.kind if g.kind != 'free' else 'swap'), 'role': 'guard empty() vs linked memory'})
    else:
        run.ok('R-MOVE.6', inst, db.classes[cls]['loc'], 'every path that lowers capacity_ also unlinks (%d paths)' % checked)


def touches_old_memory(db, fn, memo, depth=0):
    """does this function (transitively) write through node/chunk links, i.e. into memory the object points into?"""
    if fn.key in memo:
        return memo[fn.key]
    memo[fn.key] = False
    if depth > 4:
        return False
    res = False
    for e in fn.events():
        t = top_term(e)
        if e['ev'] == 'assign':
            l = sym.canon(e['lhs'])
            if re.search(r'\.(next|prev)$', l) and ('.next.' in l or '.prev.' in l or '->' in l):
                res = True
        if t is not None and t.get('k') == 'call':
            if t.get('short') in ('xor_list_change', 'xor_list_set', 'list_set_next', 'xor_list_insert') and t.get('args'):
                # link helper applied to something that is not one of the object's own proxy nodes
                a0 = sym.canon(t['args'][0])
                if 'begin_node()' not in a0 and 'end_node()' not in a0:
                    res = True
            callee = db.fns.get(t.get('key'))
            if callee is not None and callee.key != fn.key and touches_old_memory(db, callee, memo, depth + 1):
                res = True
        if t is not None and t.get('k') == 'construct':
            callee = db.fns.get(t.get('key'))
            if callee is not None and touches_old_memory(db, callee, memo, depth + 1):
                res = True
        if e['ev'] == 'decl':
            for v in e['vars']:
                init = v.get('init') or {}
                if init.get('k') == 'construct':
                    callee = db.fns.get(init.get('key'))
                    if callee is not None and touches_old_memory(db, callee, memo, depth + 1):
                        res = True
    memo[fn.key] = res
    return res


def check_assign_order(run, db, cls, ops):
    """memberwise move assignment: the arena (owner of the blocks) is assigned after every member whose own move assignment
    writes into memory it points to - otherwise those writes hit blocks that were just returned to the block source"""
    fn = ops.get('move-assign')
    if fn is None or is_tmp_swap(fn):
        return
    crec = db.classes.get(cls)
    ftypes = {f['name']: f['t'] for f in crec['fields']}
    arena_fields = [n for n, t in ftypes.items() if cls_template(t) == 'memory_arena']
    if not arena_fields:
        return
    seq = []
    for e, t in flow.call_events(fn):
        if t.get('short') == 'operator=' and isinstance(t.get('recv'), dict):
            r = sym.canon(t['recv'])
            if r.startswith('this.') and r[5:] in ftypes:
                seq.append((r[5:], t))
    memo = {}
    inst = '%s [%s]' % (fn.display, db.config)
    problems = []
    seen_arena = False
    for name, t in seq:
        if name in arena_fields:
            seen_arena = True
            continue
        callee = db.fns.get(t.get('key'))
        if seen_arena and callee is not None and touches_old_memory(db, callee, memo):
            problems.append('%s is move-assigned after %s: %s relinks the nodes of the old list, which live in blocks that the arena assignment has already returned to the block source'
                            % (name, arena_fields[0], strip_ns(ftypes[name])))
    if problems:
        run.violation('R-MOVE.7', inst, fn.loc, '; '.join(problems), site={'function': '%s::move-assign' % cls_template(cls), 'role': 'owner assigned last'})
    else:
        run.ok('R-MOVE.7', inst, fn.loc, 'members that touch their old memory are assigned before the arena (order: %s)' % ', '.join(n for n, _ in seq))


def run(run):
    run.rule('R-MOVE.7', 'memberwise move assignment assigns the arena after members that write into their old memory', floor=4)
    run.rule('R-MOVE.1', 'coverage of fields and bases in move ctor / move assignment / swap', floor=30)
    run.rule('R-MOVE.2', 'copied owner fields are reset in the source on the same path', floor=15)
    run.rule('R-MOVE.3', 'destructor safe on the moved-from value', floor=1)
    run.rule('R-MOVE.4', 'release before overwrite in move assignment', floor=2)
    run.rule('R-MOVE.5', 'self-address fields re-derived', floor=2)
    run.rule('R-MOVE.9', 'swap exchanges the integer counters of both sides on every path', floor=2)
    run.rule('R-MOVE.8', 'own address registered again after a move (deeply tracked allocators)', floor=1)
    run.rule('R-MOVE.6', 'counter-membership invariant behind empty() guards', floor=3)
    run.explanation = ('Per class with user-provided move operations: what is transferred, what the source is left with, what the '
                       'destructor does to that value, and whether assignment releases what it overwrites - all from the CFGs of the '
                       'special members and the class layout facts; both node-list configurations.')
    run.assumptions += ['validity of handed-out pointers after a move follows from coverage + re-derivation; the list shape itself is not modelled']
    n_cls = 0
    for cfg in common.configs(run):
        db = build.load_db(cfg, log=run.log)
        run.count('functions_analysed', len(db.fns))
        for cls, ops in sorted(classes_with_moves(db).items()):
            if cls not in db.classes:
                continue
            n_cls += 1
            check_coverage(run, db, cls, ops)
            check_emptiness(run, db, cls, ops)
            check_dtor_on_empty(run, db, cls, ops)
            check_release_before_overwrite(run, db, cls, ops)
            check_self_address(run, db, cls, ops)
            check_self_registration(run, db, cls, ops)
            check_swap_exchanges(run, db, cls, ops)
            check_counter_membership(run, db, cls, ops)
            check_assign_order(run, db, cls, ops)
    run.count('classes_with_move_operations', n_cls)
    if n_cls < 40:
        run.broke('only %d class instantiations with user-provided move operations found' % n_cls)
