"""R-FWD: forwarding fidelity and sibling agreement, shared by C09 (adapters), C08 (fallback), C05 (block
sources), C02 (aligned_allocator), C10 (std_allocator)."""
from engine import fwd, sym
from engine.facts import cls_template, strip_ns, tstr

ACQ = ('allocate_node', 'allocate_array', 'try_allocate_node', 'try_allocate_array')
REL = ('deallocate_node', 'deallocate_array', 'try_deallocate_node', 'try_deallocate_array')
PAIRS = [('allocate_node', 'deallocate_node'), ('allocate_array', 'deallocate_array'),
         ('try_allocate_node', 'try_deallocate_node'), ('try_allocate_array', 'try_deallocate_array'),
         ('allocate_impl', 'deallocate_impl'), ('try_allocate_impl', 'try_deallocate_impl'),
         ('allocate_block', 'deallocate_block'), ('do_allocate', 'do_deallocate'), ('allocate', 'deallocate')]


def helper_inline(f, callee, t):
    """inline helpers of the same class and the traits_detail dispatch functions (small, non-recursive)"""
    if len(callee.blocks) > 16:
        return False
    if callee.short.startswith('get_') or callee.short == 'get':
        return False    # accessors of sub-objects keep their name: it identifies the target
    if callee.cls and callee.cls == f.cls:
        return True
    if '::traits_detail::' in callee.name:
        return True
    return False


def summaries(db, f, roles=None, exceptional=False):
    return fwd.summarize(f, db=db, inline_pred=helper_inline, roles=roles, exceptional=exceptional)


def project(s, drop_roles=('ptr', 'block')):
    return (s.cond_key(), tuple(fc.sig(drop_ptr=True, as_acquire=True) for fc in s.fwd))


def sibling_agreement(run, rule, db, acq, rel, site_cls, roles_acq=None, roles_rel=None, prop_note=''):
    """the set of (path condition, forwarded call, target, size/count/alignment terms) must be identical on the
    acquire and on the release side"""
    try:
        A = [s for s in summaries(db, acq, roles_acq) if s.end == 'return']
        R = [s for s in summaries(db, rel, roles_rel) if s.end == 'return']
    except sym.PathLimit as e:
        run.broke(str(e))
        return
    pa = {project(s) for s in A}
    pr = {project(s) for s in R}
    inst = '%s <-> %s [%s]' % (acq.display, rel.short, db.config)
    if not pa or not pr:
        run.broke('R-FWD: no normal path through %s or %s' % (acq.display, rel.display))
        return
    if pa == pr:
        run.ok(rule, inst, acq.loc, '%d path outcome(s) agree: %s' % (len(pa), _fmt(sorted(pa)[0])))
        return
    only_a = sorted(pa - pr)
    only_r = sorted(pr - pa)
    detail = 'acquire and release disagree. only on acquire: %s ; only on release: %s' % (
        '; '.join(_fmt(x) for x in only_a[:3]) or '-', '; '.join(_fmt(x) for x in only_r[:3]) or '-')
    run.violation(rule, inst, rel.loc, detail,
                  site={'function': '%s::%s' % (site_cls, rel.short), 'role': 'sibling agreement with ' + acq.short})


def _fmt(p):
    conds, calls = p
    cs = ' & '.join(conds) or 'always'
    return 'if %s -> %s' % (cs, ', '.join('%s@%s(%s)' % (k, tg, ', '.join('%s=%s' % kv for kv in a)) for k, tg, a in calls) or 'nothing')


def fidelity(run, rule, db, f, site_cls, roles=None, allow_multi=False, expect_kinds=None):
    """every normal path forwards the request: size/count/alignment reach the wrapped allocator unchanged or
    provably not smaller; a node request may become an array request only with a ceiling count"""
    try:
        S = [s for s in summaries(db, f, roles) if s.end == 'return']
    except sym.PathLimit as e:
        run.broke(str(e))
        return
    inst = '%s [%s]' % (f.display, db.config)
    site = {'function': '%s::%s' % (site_cls, f.short), 'role': 'fidelity'}
    if not S:
        run.broke('R-FWD: no normal path through %s' % f.display)
        return
    froles = set((roles or fwd.fn_roles(f)).values())
    problems = []
    for s in S:
        calls = [fc for fc in s.fwd if fc.kind not in ('max_node_size', 'max_array_size', 'max_alignment', 'next_block_size')]
        if not calls:
            problems.append('a path (%s) returns without forwarding the request' % (' & '.join(s.cond_key()) or 'unconditional'))
            continue
        definite = [fc for fc in calls if not fc.kind.startswith('try_')]
        if f.short in REL + ('deallocate_impl', 'do_deallocate', 'deallocate_block', 'deallocate') and len(definite) > 1:
            problems.append('a path releases the block more than once: %s' % calls)
        if not allow_multi and len(calls) > 1:
            problems.append('a path forwards %d times: %s' % (len(calls), calls))
        if expect_kinds and not all(fc.kind in expect_kinds for fc in calls):
            problems.append('forwards to %s, expected one of %s' % ([fc.kind for fc in calls], sorted(expect_kinds)))
        for fc in calls:
            for r in ('size', 'alignment', 'count'):
                if r not in fc.args:
                    continue
                a = fc.args[r]
                p = '$' + r
                if r in froles:
                    if fwd.implies_ge(s.conds, a, p):
                        continue
                    if r == 'size' and 'count' in froles and 'count' not in fc.args and a in ('($count * $size)', '($size * $count)'):
                        continue   # array -> node with count*size (traits default)
                    if r == 'size' and 'count' in fc.args and 'count' not in froles and fc.args['count'] == '1' and a == p:
                        continue   # node request expressed as an array of one element (type-erased interface)
                    if r == 'size' and 'count' in fc.args and 'count' not in froles:
                        # node request split into an array: count must be ceil(size / a)
                        if fwd.is_ceil_div(fc.args['count'], '$size', a, s.conds):
                            continue
                        problems.append('request of $size bytes becomes %s x %s: the count is not a ceiling division' % (fc.args['count'], a))
                        continue
                    problems.append('%s passes %s=%s (requested %s)' % (fc.kind, r, a, p))
                elif r == 'count' and 'size' in froles and 'count' not in froles:
                    if a == '1' and fc.args.get('size') == '$size':
                        continue   # a node is an array of one element (type-erased interface)
                    if fwd.is_ceil_div(a, '$size', fc.args.get('size', '?'), s.conds):
                        continue
                    problems.append('request of $size bytes becomes %s x %s: the count is not a ceiling division' % (a, fc.args.get('size')))
            if 'count' in froles and 'count' not in fc.args and fc.args.get('size') == '$size':
                # array request forwarded as a node request of one element: only when count == 1
                if ('($count == 1)', True) not in s.conds and ('(1 == $count)', True) not in s.conds:
                    problems.append('array request forwarded as a single node of $size bytes without testing count == 1')
    if problems:
        run.violation(rule, inst, f.loc, '; '.join(sorted(set(problems))[:4]), site=site)
    else:
        run.ok(rule, inst, f.loc, '%d path(s): %s' % (len(S), S[0].fwd))


def find_pairs(fns, roles=None):
    """group functions of one class instantiation: short -> Fn (first overload with concept arity)"""
    by = {}
    for f in fns:
        if roles and f.short in roles:
            if len(f.params) > max(roles[f.short]):
                by.setdefault(f.short, f)
            continue
        if f.short in fwd.CONCEPT:
            n = len(fwd.CONCEPT[f.short])
            if len(f.params) >= n:
                by.setdefault(f.short, f)
    return by
