"""C14 - temporary allocations end with their scope; each live thread has its own stack (structural clauses, stack mode 2).

R-TS14.scope   temporary_allocator: constructor records the unwinder and the previous top and installs itself; the destructor,
               on the active path, restores top_ = prev_ and must-call unwind_.unwind(); allocate() only through the recorded stack
R-TS14.own     ownership typestate of a list node: in_use_ becomes true only in the node constructor or by compare-exchange in
               find_unused, false only in clear(); every call of clear(*temp_stack) is followed on all paths by dropping the
               thread's reference (temp_stack = nullptr) - except in the thread-exit detector, after which the thread is gone
R-TS14.list    the list head is written only by the CAS loop of the node constructor and by exchange(nullptr) in destroy();
               next_ is written only before publication (node constructor)
R-TS14.exit    on the path where the nifty counter reaches zero destroy() is called, and that guard reads no other thread-local state
R-TS14.get     a thread obtains a stack only through create() when it has none (temp_stack == nullptr)
"""
import re

from engine import build, fwd, sym, flow
from engine.facts import cls_template, strip_ns, top_term, subterms, tstr
from rules import common

LEVEL = 'other'


def tmp_fns(db):
    return [f for f in db.fns.values() if not f.pattern and 'temporary_allocator.cpp' in f.loc]


def check_scope(run, db):
    n = 0
    for f in db.find(cls_t='temporary_allocator', kind='ctor'):
        if len(f.params) != 1:
            continue
        n += 1
        inits = {e.get('field'): sym.canon(e['e'], {0: 'stack'}) for e in f.events() if e['ev'] == 'init' and e.get('field')}
        w = [e for e in f.events() if e['ev'] == 'assign' and sym.canon(e['lhs'], {0: 'stack'}) == '$stack.top_' and sym.canon(e['rhs']) == 'this']
        probs = []
        if 'memory_stack_raii_unwind' not in inits.get('unwind_', '') or '$stack' not in inits.get('unwind_', ''):
            probs.append('unwind_ is not bound to the stack (marker not recorded)')
        if inits.get('prev_') != '$stack.top_':
            probs.append('prev_ is %s, not the previous top' % inits.get('prev_'))
        if not w or not flow.must_pass_through(f, lambda e: e in w):
            probs.append('the allocator does not install itself as the stack\'s top')
        _emit(run, 'R-TS14.scope', f, db, probs, 'records marker and previous top, installs itself', {'function': 'temporary_allocator::<ctor>', 'role': 'scope entry'})
    for f in db.find(cls_t='temporary_allocator', kind='dtor'):
        n += 1
        probs = []
        for s in fwd.summarize(f, db=db, roles={}, no_forward=True):
            if s.end != 'return':
                continue
            active = ('this.is_active()', True) in s.conds
            uw = [c for c in s.calls if c[0] == 'this.unwind_.unwind()']
            rest = [w for w in s.writes if w[0].endswith('.top_') and w[1] == 'this.prev_']
            if active and (len(uw) != 1 or len(rest) != 1):
                probs.append('active path: unwind %d time(s), top_ restored %d time(s)' % (len(uw), len(rest)))
            if not active and (uw or rest):
                probs.append('an inactive allocator unwinds the stack')
        _emit(run, 'R-TS14.scope', f, db, probs, 'active: top_ = prev_, unwind_.unwind(); inactive: nothing', {'function': 'temporary_allocator::<dtor>', 'role': 'scope exit'})
    for f in db.find(cls_t='temporary_allocator', short='allocate'):
        n += 1
        rets = [s.ret for s in fwd.summarize(f, db=db, roles={0: 'size', 1: 'alignment'}, no_forward=True) if s.end == 'return']
        okk = rets and all(r == 'this.unwind_.get_stack().stack_.allocate($size,$alignment)' for r in rets)
        _emit(run, 'R-TS14.scope', f, db, [] if okk else ['allocates through %s, not the recorded stack' % rets], 'allocates from the stack recorded at construction',
              {'function': 'temporary_allocator::allocate', 'role': 'same stack'})
    return n


def check_ownership(run, db):
    n = 0
    fns = tmp_fns(db)
    # ---- who writes in_use_
    writers_true, writers_false, others = [], [], []
    for f in fns:
        for e in f.events():
            if e['ev'] == 'init' and e.get('field') == 'in_use_':
                (writers_true if sym.canon(e['e']).endswith('true}') or sym.canon(e['e']) == 'true' or 'true' in sym.canon(e['e']) else others).append((f, 'init ' + sym.canon(e['e'])))
            if e['ev'] == 'assign' and sym.canon(e['lhs']).endswith('.in_use_'):
                others.append((f, 'plain assignment'))
            t = top_term(e)
            if t is not None and t.get('k') == 'call' and isinstance(t.get('recv'), dict) and sym.canon(t['recv']).endswith('.in_use_'):
                sh = t.get('short')
                if sh == 'compare_exchange_strong' and [sym.canon(a) for a in t['args'][1:2]] == ['true']:
                    writers_true.append((f, 'compare_exchange(false -> true)'))
                elif sh == 'operator=' and sym.canon(t['args'][0]) == 'false':
                    writers_false.append((f, 'in_use_ = false'))
                elif sh in ('<conv>', 'load'):
                    pass
                else:
                    others.append((f, '%s(%s)' % (sh, ','.join(sym.canon(a) for a in t.get('args', [])))))
    inst = 'in_use_ writers [%s]' % db.config
    n += 1
    probs = []
    allowed_true = {'<ctor>', 'find_unused'}
    allowed_false = {'clear'}
    for f, how in writers_true:
        # taking a stack (flag false -> true by compare-exchange, whose expected value R-TS14.cas decides) is the list's own business,
        # whichever of its member functions contains the loop; creation sets the flag in the node's constructor
        if f.short not in allowed_true and not (how.startswith('compare_exchange') and cls_template(f.cls or '') == 'detail::temporary_stack_list'):
            probs.append('%s sets in_use_ (%s)' % (strip_ns(f.name), how))
    for f, how in writers_false:
        if f.short not in allowed_false:
            probs.append('%s clears in_use_' % strip_ns(f.name))
    for f, how in others:
        probs.append('%s writes in_use_ in an unlisted way: %s' % (strip_ns(f.name), how))
    if writers_true and not writers_false:
        run.violation('R-TS14.own', inst, fns[0].loc, 'in this configuration no function ever clears in_use_ (the only reset sits inside an assertion macro that is compiled out, or was removed): '
                      'a stack that is given back stays marked in use and is never reused', site={'function': 'temporary_stack_list_node::in_use_', 'role': 'the flag is cleared when a stack is given back'})
    elif not writers_true or not writers_false:
        run.broke('writers of in_use_ not found [%s]' % db.config)
    elif probs:
        run.violation('R-TS14.own', inst, fns[0].loc, '; '.join(probs), site={'function': 'temporary_stack_list_node::in_use_', 'role': 'who may change ownership'})
    else:
        run.ok('R-TS14.own', inst, fns[0].loc, 'true: %s; false: %s' % (sorted({f.short for f, _ in writers_true}), sorted({f.short for f, _ in writers_false})))
    # ---- callers of clear drop the reference
    for f in fns:
        calls = [(e, t) for e, t in flow.call_events(f) if t.get('short') == 'clear' and 'temporary_stack_list' in t.get('cls', '')]
        if not calls:
            continue
        n += 1
        inst = '%s [%s]' % (f.display, db.config)
        if 'thread_exit_detector' in f.cls:
            run.ok('R-TS14.own', inst, f.loc, 'thread-exit detector: the thread is gone after this')
            continue
        probs = []
        for s in fwd.summarize(f, db=db, roles={}, no_forward=True):
            if s.end != 'return':
                continue
            cl = [i for i, c in enumerate(s.calls) if c[1].get('short') == 'clear']
            if not cl:
                continue
            drops = [w for w in s.writes if w[0].endswith('temp_stack') and w[1] == 'null' and w[4] > cl[-1]]
            if not drops:
                probs.append('the stack is marked unused but this thread keeps its pointer to it: another thread can adopt a stack that is still in use')
        _emit(run, 'R-TS14.own', f, db, probs, 'clear(*temp_stack) is followed by temp_stack = nullptr', {'function': strip_ns(f.name), 'role': 'reference dropped after clear'})
    return n


def check_list(run, db):
    n = 0
    fns = tmp_fns(db)
    head_writers = []
    next_writers = []
    for f in fns:
        for e in f.events():
            t = top_term(e)
            if t is not None and t.get('k') == 'call' and isinstance(t.get('recv'), dict) and sym.canon(t['recv']).endswith('.first') or \
                    (t is not None and t.get('k') == 'call' and isinstance(t.get('recv'), dict) and sym.canon(t['recv']) in ('this.first',)):
                if t.get('short') not in ('load', '<conv>'):
                    head_writers.append((f, t.get('short'), [sym.canon(a) for a in t.get('args', []) if 'memory_order' not in sym.canon(a)]))
            if e['ev'] == 'assign' and sym.canon(e['lhs']).endswith('next_'):
                next_writers.append((f, e))
    n += 1
    probs = []
    for f, sh, args in head_writers:
        if f.short == '<ctor>' and 'temporary_stack_list_node' in f.cls and sh == 'compare_exchange_weak' and args == ['this.next_', 'this']:
            continue
        if f.short == 'destroy' and sh == 'exchange' and args == ['null']:
            continue
        probs.append('%s writes the list head with %s(%s)' % (strip_ns(f.name), sh, ','.join(args)))
    if not head_writers:
        run.broke('writers of the stack list head not found [%s]' % db.config)
    elif probs:
        run.violation('R-TS14.list', 'list head writers [%s]' % db.config, fns[0].loc, '; '.join(probs), site={'function': 'temporary_stack_list::first', 'role': 'who may write the head'})
    else:
        run.ok('R-TS14.list', 'list head writers [%s]' % db.config, fns[0].loc, 'CAS(next_, this) in the node constructor; exchange(nullptr) in destroy')
    n += 1
    probs = []
    for f, e in next_writers:
        if not (f.short == '<ctor>' and 'temporary_stack_list_node' in f.cls):
            probs.append('%s writes next_ after the node was published' % strip_ns(f.name))
        else:
            cas = [ev for ev in f.events() if top_term(ev) is not None and top_term(ev).get('short') == 'compare_exchange_weak']
            if cas and not f.ev_dominates(e, cas[0]):
                probs.append('next_ is written after the publishing compare-exchange')
    if probs:
        run.violation('R-TS14.list', 'next_ writers [%s]' % db.config, fns[0].loc, '; '.join(probs), site={'function': 'temporary_stack_list_node::next_', 'role': 'written before publication only'})
    else:
        run.ok('R-TS14.list', 'next_ writers [%s]' % db.config, fns[0].loc, 'only the node constructor, before the CAS')
    return n


def check_exit(run, db):
    n = 0
    for f in db.find(cls_t='detail::temporary_allocator_dtor_t', kind='dtor'):
        n += 1
        probs = []
        reached = False
        for s in fwd.summarize(f, db=db, roles={}, no_forward=True):
            if s.end not in ('return', 'propagate'):
                continue
            d = [c for c in s.calls if c[1].get('short') == 'destroy']
            zero = [c for c, tk in s.conds if 'nifty_counter' in c and tk and ('== 0' in c or '(0 ==' in c)]
            other = [c for c, tk in s.conds if 'nifty_counter' not in c]
            if d:
                reached = True
                if not zero:
                    probs.append('destroy() is called although the counter did not reach zero')
            if zero and not d:
                probs.append('the counter reaches zero but destroy() is skipped on a path that additionally tests %s: the stacks of the other threads are never freed when this thread had none'
                             % (other or 'nothing'))
            if d and other:
                probs.append('the exit cleanup also depends on %s (thread-local state of the exiting thread)' % other)
        if not reached:
            probs.append('destroy() is never called')
        _emit(run, 'R-TS14.exit', f, db, probs, 'destroy() exactly when the nifty counter reaches zero', {'function': 'detail::temporary_allocator_dtor_t::<dtor>', 'role': 'exit cleanup'})
    for f in tmp_fns(db):
        if f.short == 'destroy':
            n += 1
            calls = [t.get('short') for e, t in flow.call_events(f)]
            okk = '<dtor>' in calls and 'deallocate_node' in calls and 'exchange' in calls
            _emit(run, 'R-TS14.exit', f, db, [] if okk else ['destroy() does not detach the list, destroy each stack and free its storage (%s)' % calls],
                  'detaches the list, destroys every stack, frees its storage', {'function': 'temporary_stack_list::destroy', 'role': 'frees everything'})
    return n


def check_get(run, db):
    n = 0
    for f in tmp_fns(db):
        if f.short == 'get_temporary_stack' or (f.kind == 'ctor' and 'temporary_stack_initializer' in f.cls and f.params and f.params[0]['t'] in ('unsigned long', 'std::size_t', 'size_t')):
            n += 1
            probs = []
            for s in fwd.summarize(f, db=db, roles={0: 'initial_size'}, no_forward=True):
                if s.end != 'return':
                    continue
                cr = [c for c in s.calls if c[1].get('short') == 'create']
                none = any(c.endswith('temp_stack') and not tk for c, tk in s.conds)
                if cr and not none:
                    probs.append('creates / adopts a stack although the thread already has one')
                if none and (len(cr) != 1 or not any(w[0].endswith('temp_stack') and 'create(' in w[1] for w in s.writes)):
                    probs.append('a thread without a stack does not get one from create()')
            _emit(run, 'R-TS14.get', f, db, probs, 'temp_stack = create(size) iff the thread has none', {'function': strip_ns(f.name), 'role': 'one stack per thread'})
    return n


def _ev_subterms(e):
    """all sub-terms an event evaluates (expression, both sides of an assignment, initialisers of declared variables)"""
    roots = [e.get('e'), e.get('lhs'), e.get('rhs')] + [v.get('init') for v in e.get('vars', [])]
    for r in roots:
        if isinstance(r, dict):
            for st in subterms(r):
                yield st


def _registers_exit_detector(db, f, memo, depth=0):
    """does every normal path through f that hands out a stack odr-use thread_exit_detector (directly or in a callee on every path)?"""
    if f.key in memo:
        return memo[f.key]
    memo[f.key] = False
    if depth > 4:
        return False

    def pred(e):
        for st in _ev_subterms(e):
            if isinstance(st, dict) and st.get('k') == 'global' and 'thread_exit_detector' in str(st.get('name', '')):
                return True
            if isinstance(st, dict) and st.get('k') in ('call', 'construct', 'new'):
                g = db.fns.get(st.get('key'))
                if g is not None and 'temporary_allocator' in g.loc and _registers_exit_detector(db, g, memo, depth + 1):
                    return True
        # base / member initialisers of constructors
        if e['ev'] == 'init':
            for st in subterms(e.get('e')):
                if isinstance(st, dict) and st.get('k') in ('call', 'construct'):
                    g = db.fns.get(st.get('key'))
                    if g is not None and _registers_exit_detector(db, g, memo, depth + 1):
                        return True
        return False
    memo[f.key] = flow.must_pass_through(f, pred)
    return memo[f.key]


def check_detector(run, db):
    """a thread that gets a stack - a new one or one adopted from a finished thread - must have its thread-exit detector
    instantiated (thread_local objects are only created in a thread that odr-uses them), otherwise the stack is never marked
    unused again when that thread exits: every function that stores create()'s result in the thread's pointer registers the
    detector on the way, or create() does on every path"""
    n = 0
    memo = {}
    for f in tmp_fns(db):
        lv = common.single_assignment_locals(f)      # `created = create(..); temp_stack = created;` stores create()'s result
        w = [e for e in f.events() if e['ev'] == 'assign' and tstr(e['lhs']).endswith('temp_stack')
             and any(isinstance(st, dict) and st.get('k') == 'call' and st.get('short') == 'create' for st in subterms(common.expand_locals(e['rhs'], lv)))]
        if not w:
            continue
        n += 1
        probs = []
        if f.kind == 'ctor':
            # RAII pairing: the class's destructor gives the stack back itself (its shape is R-TS14.own), no detector needed
            dt = [g for g in db.fns.values() if g.cls == f.cls and g.kind == 'dtor']
            if dt and any(t.get('short') == 'clear' and 'temp_stack' in tstr(common.expand_locals(t, common.single_assignment_locals(dt[0]))) for e2, t in flow.call_events(dt[0])):
                _emit(run, 'R-TS14.detector', f, db, [], 'the stack is given back by the destructor of the same object', {'function': strip_ns(f.name), 'role': 'exit detector instantiated'})
                continue
        for e in w:
            creates = [db.fns.get(st.get('key')) for st in subterms(common.expand_locals(e['rhs'], lv)) if isinstance(st, dict) and st.get('k') == 'call' and st.get('short') == 'create']
            via_create = all(g is not None and _registers_exit_detector(db, g, memo) for g in creates)
            # on the path through this function that performs the write
            here = False
            for e2 in f.events():
                if any(isinstance(st, dict) and st.get('k') == 'global' and 'thread_exit_detector' in str(st.get('name', '')) for st in _ev_subterms(e2)):
                    if e2.block == e.block or f.ev_dominates(e, e2) or f.ev_dominates(e2, e):
                        here = True
            if not via_create and not here:
                probs.append('the thread obtains a stack from create(), which adopts a finished thread\'s stack without instantiating this thread\'s '
                             'exit detector: when the adopting thread exits the stack stays marked in use and is never reused')
        _emit(run, 'R-TS14.detector', f, db, probs, 'the exit detector is instantiated in every thread that obtains a stack',
              {'function': strip_ns(f.name), 'role': 'exit detector instantiated'})
    return n


def check_failed_growth(run, db):
    """a temporary_allocator scope in which growing the stack fails leaves the stack as it was: the temporary stack's block
    source and arena write nothing before the request for memory fails (shared rule R-THROW.7 of C03)"""
    from rules import c03, c05
    return c03.check_failed_growth(c05._Renamed(run, 'R-TS14.fail'), db, only=('detail::temporary_block_allocator', 'memory_arena', 'memory_stack'))


def check_cas(run, db):
    """adopting a stack another thread left behind: every compare-exchange on an in_use_ flag expects `false` and stores `true`.
    The expected-value object is written back by a failed exchange, so the only definitions of it that may reach an exchange are
    initialisations / assignments with false; and the stack is returned only where the exchange succeeded."""
    n = 0
    for f in tmp_fns(db):
        cas = [(e, t) for e, t in flow.call_events(f) if t.get('short', '').startswith('compare_exchange') and 'in_use_' in tstr(t.get('recv'))]
        if not cas:
            continue
        n += 1
        probs = []
        for e, t in cas:
            args = t.get('args', [])
            if len(args) < 2:
                probs.append('compare-exchange with %d argument(s)' % len(args))
                continue
            des = sym.strip_casts(args[1])
            if not (des.get('k') == 'lit' and des.get('v') in (1, True)):
                probs.append('the exchange stores %s, not true' % tstr(des)[:40])
            exp = sym.strip_casts(args[0])
            if exp.get('k') != 'local':
                probs.append('the expected value is %s, not a local object' % tstr(exp)[:40])
                continue
            did = exp['did']

            def transfer(st, ev, did=did):
                if ev['ev'] == 'decl':
                    for v in ev['vars']:
                        if v['did'] == did:
                            i = sym.strip_casts(v.get('init') or {})
                            return frozenset(['false' if isinstance(i, dict) and i.get('k') == 'lit' and i.get('v') in (0, False) else 'other'])
                if ev['ev'] == 'assign' and sym.strip_casts(ev['lhs']).get('did') == did and sym.strip_casts(ev['lhs']).get('k') == 'local':
                    r = sym.strip_casts(ev['rhs'])
                    return frozenset(['false' if ev['op'] == '=' and r.get('k') == 'lit' and r.get('v') in (0, False) else 'other'])
                tt = top_term(ev)
                if isinstance(tt, dict) and tt.get('k') == 'call' and tt.get('short', '').startswith('compare_exchange') and tt.get('args') \
                        and sym.strip_casts(tt['args'][0]).get('did') == did:
                    return frozenset(['written back by an earlier exchange'])
                return st
            _, before = flow.forward_may(f, [], transfer)
            st = before.get((e.block, e.idx), frozenset())
            if st != frozenset(['false']):
                probs.append('the expected value of the exchange may be %s when it runs: a stack whose flag is already true (in use by a live thread) '
                             'can be taken' % ', '.join(sorted(st) or ['uninitialised']))
        # the node is handed out only where the exchange succeeded - decided on plain path traces, which keep the loop conditions
        # (a cursor returned after the loop ran off the list is null by the loop's own exit condition)
        try:
            traces = fwd.trace(f, db=db, roles={})
        except sym.PathLimit as ex:
            run.broke(str(ex))
            traces = []
        for p in traces:
            endst = p[-1] if p and p[-1].get('kind') == 'end' else None
            if endst is None or endst.get('end') != 'return' or endst.get('ret') is None:
                continue
            ret_c = sym.canon(endst['ret'], {})
            if ret_c == 'null':
                continue
            conds = []
            for st in p:
                if st['kind'] == 'br':
                    for a, tk in fwd.split_condition(st['cond'], st['taken']):
                        conds.append((sym.canon(a, {}), tk))
            if common.nonnull_on_path(conds, ret_c) is False:
                continue
            if not any('compare_exchange' in c and tk for c, tk in conds):
                # a freshly created stack (the result of a function that constructs one, or a new-expression) is not taken from the list
                rt = sym.strip_casts(endst['ret'])
                fresh = isinstance(rt, dict) and rt.get('k') == 'new'
                if isinstance(rt, dict) and rt.get('k') == 'call':
                    g = db.fns.get(rt.get('key'))
                    fresh = g is not None and any((top_term(e2) or {}).get('k') == 'new' for e2 in g.events())
                if not fresh:
                    probs.append('returns %s on a path where no exchange succeeded' % ret_c[:50])
        _emit(run, 'R-TS14.cas', f, db, probs, 'in_use_: false -> true, expected value fresh at every exchange; node returned only on success',
              {'function': strip_ns(f.name), 'role': 'adopt only an unused stack'})
    return n


def _emit(run, rule, f, db, probs, okmsg, site):
    inst = '%s [%s]' % (f.display, db.config)
    if probs:
        run.violation(rule, inst, f.loc, '; '.join(sorted(set(probs))[:3]), site=site)
    else:
        run.ok(rule, inst, f.loc, okmsg)


def run(run):
    run.rule('R-TS14.scope', 'temporary_allocator scope entry/exit and allocation path', floor=3)
    run.rule('R-TS14.own', 'ownership typestate of the per-thread stacks', floor=2)
    run.rule('R-TS14.list', 'writers of the lock-free list', floor=2)
    run.rule('R-TS14.exit', 'process-exit cleanup', floor=2)
    run.rule('R-TS14.get', 'one stack per thread', floor=2)
    run.rule('R-TS14.detector', 'every thread that obtains a stack has its exit detector instantiated', floor=2)
    run.rule('R-TS14.fail', 'a failed growth leaves the temporary stack unchanged', floor=3)
    run.rule('R-TS14.cas', 'a stack is adopted only through in_use_: false -> true', floor=1)
    run.explanation = ('Typestate / who-may-write rules over src/temporary_allocator.cpp in temporary-stack mode 2. Linearizability of the lock-free '
                       'list, reuse fairness and races on a stack while it is adopted are schedule-level facts and need a model checker (another family).')
    did = 0
    for cfg in common.configs(run):
        if build.CONFIGS[cfg]['FOONATHAN_MEMORY_TEMPORARY_STACK_MODE'] != 2:
            continue
        did += 1
        db = build.load_db(cfg, log=run.log)
        check_scope(run, db)
        check_ownership(run, db)
        check_list(run, db)
        check_exit(run, db)
        check_get(run, db)
        if check_detector(run, db) < 2:
            run.broke('no function stores create() in the thread\'s stack pointer [%s]' % cfg)
        if check_failed_growth(run, db) < 3:
            run.broke('temporary stack growth functions not found [%s]' % cfg)
        if check_cas(run, db) < 1:
            fu = [f for f in tmp_fns(db) if f.short == 'find_unused']
            if not fu:
                run.broke('neither a compare-exchange on in_use_ nor find_unused found [%s]' % cfg)
            for f in fu:
                _emit(run, 'R-TS14.cas', f, db, ['in_use_ is not taken by a compare-exchange: two threads can adopt the same stack'], '',
                      {'function': strip_ns(f.name), 'role': 'adopt only an unused stack'})
    if not did:
        run.broke('no configuration with temporary stack mode 2')
