"""C15 - leak reporting is exact: net bytes on destruction, silence when balanced.

R-PAIR        every function that tells the leak checker about an allocation does so exactly once on every
              successful path, after the last event that may throw, never on a failing path; its release
              sibling tells it exactly once on every path, with the same symbolic amount.
R-LEAKCHK     object_leak_checker: += / -= of the amount; destructor calls the handler iff the count is non-zero,
              once, with the count; move operations copy and zero.  global counter: report when the last counter
              object dies and the net is non-zero.
R-LEAKHANDLER the handler functors pass the amount unchanged to the registered leak handler.
R-LEAKMOVE    every owner's move constructor / move assignment moves its leak-checker base.
W-leak        which checker type each allocator uses with leak checking on / off.
"""
from engine import build, fwd, sym, witness, fixtures, flow
from engine.facts import cls_template, strip_ns, top_term, subterms, tstr, split_qual
from rules import fwdrules, common

LEVEL = 'other'
CHECKERS = ('detail::object_leak_checker', 'detail::global_leak_checker_impl', 'detail::no_leak_checker')


def leak_forward(fn, t):
    if t.get('k') == 'call' and t.get('short') in ('on_allocate', 'on_deallocate') and cls_template(t.get('cls', '')) in CHECKERS \
            and len(t.get('args', [])) == 1:
        return t['short'], t.get('recv') or {'k': 'this'}, {'amount': t['args'][0]}, 'leak'
    return None


def pair_name(short):
    for pre, kind in (('try_deallocate_', 'rel'), ('try_allocate_', 'acq'), ('deallocate_', 'rel'), ('allocate_', 'acq')):
        if short.startswith(pre):
            return kind, ('try_' if short.startswith('try_') else '') + short[len(pre):]
    return None, None


def users_of_leak_checker(db):
    out = []
    for f in db.fns.values():
        if f.pattern or cls_template(f.cls) in CHECKERS:
            continue
        for e, t in flow.call_events(f, lambda t: leak_forward(None, t) is not None):
            out.append(f)
            break
    return out


def summaries(db, f, exceptional=False):
    roles = fwd.fn_roles(f)
    return fwd.summarize(f, db=db, extra_forward=leak_forward, roles=roles, exceptional=exceptional,
                         inline_pred=lambda a, c, t: False)


def check_pairs(run, db):
    users = users_of_leak_checker(db)
    groups = {}
    for f in users:
        kind, k = pair_name(f.short)
        if kind is None:
            run.broke('function %s talks to the leak checker but is neither allocate_* nor deallocate_*' % f.display)
            continue
        groups.setdefault((f.cls, k), {})[kind] = f
    n = 0
    for (cls, k), g in sorted(groups.items()):
        site_cls = cls_template(cls) + ('<%s>' % cls_template(cls[cls.index('<') + 1:]) if cls_template(cls) in ('allocator_traits',) else '')
        if 'acq' not in g or 'rel' not in g:
            have = list(g.values())[0]
            run.violation('R-PAIR', '%s [%s]' % (have.display, db.config), have.loc,
                          'the leak checker is told about %s but its sibling never tells it' % have.short,
                          site={'function': '%s::%s' % (site_cls, have.short), 'role': 'unpaired'})
            continue
        acq, rel = g['acq'], g['rel']
        n += 1
        problems = []
        amounts_a, amounts_r = set(), set()
        for s in summaries(db, acq, exceptional=True):
            la = [fc for fc in s.fwd if fc.kind == 'on_allocate']
            if s.end == 'return':
                if len(la) != 1:
                    problems.append('a successful path of %s tells the leak checker %d time(s)' % (acq.short, len(la)))
                    continue
                amounts_a.add(la[0].args['amount'])
                # nothing that may throw after the count was taken
                after = False
                for it in s.path or []:
                    if it[0] == 'ev' and it[1] is la[0].event:
                        after = True
                        continue
                    if after and it[0] == 'ev':
                        t = top_term(it[1])
                        if t is not None and sym.may_throw(t):
                            problems.append('`%s` may throw after on_allocate was called: the count stays although the allocation fails' % tstr(t)[:80])
            elif s.end == 'propagate':
                if la:
                    problems.append('on_allocate is called on a path that ends in an exception (%s)' % (tstr(s.throws[2])[:80] if s.throws else ''))
        for s in summaries(db, rel):
            if s.end != 'return':
                continue
            lr = [fc for fc in s.fwd if fc.kind == 'on_deallocate']
            if len(lr) != 1:
                problems.append('a path of %s tells the leak checker %d time(s)' % (rel.short, len(lr)))
                continue
            amounts_r.add(lr[0].args['amount'])
        if not problems and amounts_a != amounts_r:
            problems.append('counted on allocation: %s ; on deallocation: %s' % (sorted(amounts_a), sorted(amounts_r)))
        inst = '%s <-> %s [%s]' % (acq.display, rel.short, db.config)
        if problems:
            run.violation('R-PAIR', inst, rel.loc, '; '.join(sorted(set(problems))[:3]),
                          site={'function': '%s::%s' % (site_cls, acq.short), 'role': 'leak count pairing'})
        else:
            run.ok('R-PAIR', inst, acq.loc, 'both sides count %s' % sorted(amounts_a))
    return n


def _writes_field(e, field, op=None):
    return e['ev'] == 'assign' and sym.canon(e['lhs']) == 'this.' + field and (op is None or e['op'] == op)


def _own_helper(a, c, t):
    return bool(c.cls) and c.cls == a.cls and c.key != a.key and c.kind == 'method' and len(c.blocks) <= 8 and c.short != 'operator()'


def check_checker(run, db):
    n = 0
    for f in db.find(cls_t='detail::object_leak_checker'):
        inst = '%s [%s]' % (f.display, db.config)
        site = {'function': 'detail::object_leak_checker::' + (f.short if f.kind == 'method' else f.kind), 'role': 'structure'}
        evs = list(f.events())
        if f.short in ('on_allocate', 'on_deallocate'):
            n += 1
            op = '+=' if f.short == 'on_allocate' else '-='
            # by effect: on every returning path the count ends at its old value plus / minus the size, whatever the spelling
            from engine import linear
            S = [x for x in fwd.summarize(f, db=db, roles={0: 'size'}, no_forward=True, inline_pred=_own_helper) if x.end == 'return']
            want = {'this.allocated_': 1, '$size': 1 if op == '+=' else -1}
            good = bool(S) and all('this.allocated_' in x.fields and linear.lin(x.fields['this.allocated_'], {0: 'size'}) == want
                                   and len([w for w in x.writes if w[0] == 'this.allocated_']) == 1 for x in S)
            if good:
                run.ok('R-LEAKCHK', inst, f.loc, 'allocated_ %s size' % op)
            else:
                run.violation('R-LEAKCHK', inst, f.loc, '%s does not apply `allocated_ %s size` exactly once' % (f.short, op), site=site)
        elif f.kind == 'dtor':
            n += 1
            S = fwd.summarize(f)
            problems = []
            for s in S:
                hc = [c for c in s.calls if c[1].get('k') == 'call' and c[1].get('short') == 'operator()']
                NE = ('(0 != this.allocated_)', '(this.allocated_ != 0)', 'this.allocated_')
                EQ = ('(0 == this.allocated_)', '(this.allocated_ == 0)')
                nz = any((c, True) in s.conds for c in NE) or any((c, False) in s.conds for c in EQ)
                z = any((c, False) in s.conds for c in NE) or any((c, True) in s.conds for c in EQ)
                if nz and not (len(hc) == 1 and hc[0][0].endswith('(this.allocated_)')):
                    problems.append('non-zero count: handler called %d time(s) (%s)' % (len(hc), [c[0] for c in hc]))
                elif z and hc:
                    problems.append('handler called although the count is zero')
                elif not nz and not z:
                    problems.append('destructor does not test the count (conditions: %s)' % (s.cond_key(),))
            if problems:
                run.violation('R-LEAKCHK', inst, f.loc, '; '.join(sorted(set(problems))), site=site)
            else:
                run.ok('R-LEAKCHK', inst, f.loc, 'handler(allocated_) iff allocated_ != 0, once')
        elif f.kind in ('move-ctor', 'move-assign'):
            n += 1
            # by effect, helpers of the class inlined: the count ends at the source's old count, the source's count at zero
            S = [x for x in fwd.summarize(f, db=db, roles={0: 'other'}, no_forward=True, inline_pred=_own_helper) if x.end == 'return']
            took = bool(S) and all(sym.canon(x.fields.get('this.allocated_') or {}, {0: 'other'}) == '$other.allocated_'
                                   or any(w[0] == 'this.allocated_' and w[1] == '$other.allocated_' for w in x.writes) for x in S)
            zeroed = bool(S) and all(sym.canon(x.fields.get('$other.allocated_') or {}, {0: 'other'}) == '0' for x in S)
            if took and zeroed:
                run.ok('R-LEAKCHK', inst, f.loc, 'count moves with the object, source zeroed')
            else:
                run.violation('R-LEAKCHK', inst, f.loc, 'move does not transfer the count and zero the source (took=%s, zeroed=%s)' % (took, bool(zeroed)), site=site)
    for f in db.find(cls_t='detail::global_leak_checker_impl'):
        if f.short in ('on_allocate', 'on_deallocate'):
            n += 1
            inst = '%s [%s]' % (f.display, db.config)
            want = 'operator+=' if f.short == 'on_allocate' else 'operator-='
            # the atomic's compound assignment or the read-modify-write it stands for
            wants = (want, 'fetch_add' if f.short == 'on_allocate' else 'fetch_sub')
            lv = common.single_assignment_locals(f)
            upd = [t for e, t in flow.call_events(f) if t.get('short', '').startswith(('operator+=', 'operator-=', 'fetch_', 'store', 'exchange', 'operator=', 'operator++', 'operator--'))
                   and 'allocated_' in tstr(t.get('recv'))]
            calls = [t for t in upd if t.get('short') in wants and t.get('args')
                     and sym.canon(common.expand_locals(t['args'][0], lv), {0: 'size'}) in ('$size', '(long)$size')]
            if len(calls) == 1 and len(upd) == 1:
                run.ok('R-LEAKCHK', inst, f.loc, 'atomic allocated_ %s size' % want[-2:])
            else:
                run.violation('R-LEAKCHK', inst, f.loc, 'global counter is not updated by exactly the size',
                              site={'function': 'detail::global_leak_checker_impl::' + f.short, 'role': 'structure'})
    for f in db.find(cls_t='detail::global_leak_checker_impl::counter'):
        if f.kind != 'dtor':
            continue
        n += 1
        inst = '%s [%s]' % (f.display, db.config)
        S = fwd.summarize(f)
        problems = []
        for s in S:
            hc = [c for c in s.calls if c[1].get('k') == 'call' and c[1].get('short') == 'operator()']
            dec = [c for c in s.calls if c[1].get('short') == 'operator--']
            last = any('no_counter_objects_' in c and '== 0' in c.replace('(0 ==', '== 0') and tk for c, tk in s.conds) or \
                any('no_counter_objects_' in c and c.startswith('(0 ==') and tk for c, tk in s.conds)
            nonzero = any('allocated_' in c and (('!=' in c and tk) or ('==' in c and not tk)) for c, tk in s.conds)
            if len(dec) != 1:
                problems.append('counter objects not decremented exactly once')
            if last and nonzero and len(hc) != 1:
                problems.append('last counter with non-zero net: handler called %d time(s)' % len(hc))
            if hc and not (last and nonzero):
                problems.append('handler called when not (last counter and non-zero net)')
            if hc and 'allocated_' not in hc[0][0]:
                problems.append('handler is not given the net count')
        if problems:
            run.violation('R-LEAKCHK', inst, f.loc, '; '.join(sorted(set(problems))),
                          site={'function': 'detail::global_leak_checker_impl::counter::<dtor>', 'role': 'structure'})
        else:
            run.ok('R-LEAKCHK', inst, f.loc, 'reports the net once, when the last counter dies and the net is non-zero')
    return n


def check_handlers(run, db):
    n = 0
    for f in db.fns.values():
        if f.pattern:
            continue
        q = split_qual(strip_ns(f.name))
        is_handler = f.short == 'operator()' and cls_template(f.cls).endswith('_leak_handler')
        if not (is_handler or f.short == 'debug_handle_memory_leak'):
            continue
        n += 1
        inst = '%s [%s]' % (f.display, db.config)
        amount_idx = len(f.params) - 1
        roles = {amount_idx: 'amount'}
        okk = False
        for e, t in flow.call_events(f):
            args = t.get('args', [])
            if not args:
                continue
            reaches = (t.get('indirect') and 'get_leak_handler' in tstr(t.get('fn'))) or t.get('short') == 'debug_handle_memory_leak'
            if reaches and sym.canon(args[-1], roles) == '$amount':
                okk = True
        if okk and flow.must_pass_through(f, lambda e: top_term(e) is not None and (top_term(e).get('indirect') or top_term(e).get('short') == 'debug_handle_memory_leak')):
            run.ok('R-LEAKHANDLER', inst, f.loc, 'amount reaches the registered leak handler unchanged')
        else:
            run.violation('R-LEAKHANDLER', inst, f.loc, 'the amount is not passed unchanged to the registered leak handler on every path',
                          site={'function': strip_ns(f.name), 'role': 'forward amount'})
    return n


def check_owner_moves(run, db):
    n = 0
    for crec in db.classes.values():
        if crec.get('pattern'):
            continue
        bases = [b['t'] for b in crec['bases'] if cls_template(b['t']) in CHECKERS[:1]]
        if not bases:
            continue
        cls = crec['name']
        for f in db.fns.values():
            if f.cls != cls or f.kind not in ('move-ctor', 'move-assign'):
                continue
            n += 1
            inst = '%s [%s]' % (f.display, db.config)
            moved = False
            for e in f.events():
                if f.kind == 'move-ctor' and e['ev'] == 'init' and e.get('base') and cls_template(e['base']) == CHECKERS[0]:
                    moved = any(s.get('k') == 'param' for s in subterms(e['e'])) and not (e['e'].get('k') == 'construct' and not e['e'].get('args'))
                t = top_term(e)
                if f.kind == 'move-assign' and t is not None and t.get('k') == 'call' and t.get('short') == 'operator=' \
                        and cls_template(t.get('cls', '')) == CHECKERS[0] and any(s.get('k') == 'param' for s in subterms(t)):
                    moved = True
            if moved:
                run.ok('R-LEAKMOVE', inst, f.loc, 'leak-checker base is moved with the owner')
            else:
                run.violation('R-LEAKMOVE', inst, f.loc, 'the move leaves the leak count behind (leak-checker base not moved from `other`)',
                              site={'function': '%s::%s' % (cls_template(cls), f.kind), 'role': 'leak checker moved'})
    return n


def run(run):
    run.rule('R-PAIR', 'on_allocate exactly once per successful path, after the last may-throw event, never on a failing path; on_deallocate exactly once; same amount term', floor=20)
    run.rule('R-LEAKCHK', 'structure of object_leak_checker / global_leak_checker_impl', floor=8)
    run.rule('R-LEAKHANDLER', 'handler functors forward the amount unchanged', floor=4)
    run.rule('R-LEAKMOVE', 'owners move their leak-checker base', floor=4)
    run.rule('W-leak', 'checker selection per configuration (compile-time)', floor=1)
    run.explanation = ('The reported number is the sum of on_allocate amounts minus on_deallocate amounts; R-PAIR shows both sides add the '
                       'same term exactly once per successful operation and nothing on failing ones, R-LEAKCHK that the checker reports '
                       'that number once iff non-zero and that it moves with the object.')
    run.assumptions += ['the composable (try_) paths count on neither side (consistent; recorded, not a violation)',
                        'integer overflow of the counter is out of scope']
    cfgs = [c for c in (build.QUICK_CONFIGS if run.tier == 'quick' else build.THOROUGH_CONFIGS)]
    for cfg in cfgs:
        db = build.load_db(cfg, log=run.log)
        leak_on = build.CONFIGS[cfg]['FOONATHAN_MEMORY_DEBUG_LEAK_CHECK']
        run.count('functions_analysed', len(db.fns))
        n = check_pairs(run, db)
        if n < 10:
            run.broke('only %d leak-counting function pairs found [%s]' % (n, cfg))
        if leak_on:
            if check_checker(run, db) < 6:
                run.broke('leak checker members not found [%s]' % cfg)
            if check_owner_moves(run, db) < 4:
                run.broke('owners with a leak-checker base not found [%s]' % cfg)
        if check_handlers(run, db) < 4:
            run.broke('leak handler functors not found [%s]' % cfg)
    witness.run_witness(run, 'W-leak', 'c15_leak.cpp', cfgs)
    fixtures.expect_fire(run, 'c15_bad.cpp', _fixture, 'R-PAIR', cfg='pinned')


def _fixture(db):
    from engine import report
    fired = set()
    r = report.Run('C15', 'quick')
    check_pairs(r, db)
    for o in r.obligations:
        if o['verdict'] != 'ok':
            for part in o['instance'].split('::'):
                pass
            # class name is the component after verif_fix::
            i = o['instance'].find('verif_fix::')
            if i >= 0:
                fired.add(o['instance'][i + len('verif_fix::'):].split('::')[0].split('<')[0].split('>')[0])
    return fired
