"""C16 - invalid releases that the debug checks cover are reported before state changes (structural clauses).

R-DBG.first    in each listed release function every pointer / double-free check precedes the first state change on every path
R-DBG.cond     the check conditions are about the offending pointer / block / marker, in the expected normal form
               (LIFO: block.memory + size == cur_)
R-DBG.search   the ordered list's position search tests membership in the loop and reports when it runs off the list; the paths
               that return without a test are exactly the three strict-order exemptions (before first, after last, strictly
               between the cached adjacent pair)
R-DBG.handler  debug_check_pointer calls the registered invalid-pointer handler iff the condition is false; the double-free
               variant forwards to it under its configuration macro; with the macros off they compile to nothing
"""
import re

from engine import build, fwd, sym, flow, linear
from engine.facts import cls_template, strip_ns, top_term, subterms, tstr
from rules import common

LEVEL = 'other'
CHECKS = ('debug_check_pointer', 'debug_check_double_dealloc')

# function -> (number of checks, state-changing call shorts / written fields)
NODE = 'debug_fill_free($mem,this.node_size_,0)'
CHUNK = 'this.find_chunk_impl(%s)' % NODE
# function -> (number of checks, state-changing call shorts / written fields, expected check conditions over VALUES: locals are
# replaced by what they hold at the check, parameters are named by position)
LISTED = {
    ('detail::small_free_memory_list', 'deallocate', 1): dict(n=3, changes=('deallocate',), writes=('this.capacity_',),
                                                             conds=[{CHUNK, '(%s != null)' % CHUNK, '(null != %s)' % CHUNK},
                                                                    {'(((%s - %s.list_memory()) %% this.node_size_) == 0)' % (NODE, CHUNK),
                                                                     '(0 == ((%s - %s.list_memory()) %% this.node_size_))' % (NODE, CHUNK)},
                                                                    {'!(%s.contains(%s,this.node_size_))' % (CHUNK, NODE)}]),
    ('static_block_allocator', 'deallocate_block', 1): dict(n=1, changes=(), writes=('this.cur_',), lifo='size'),
    ('virtual_block_allocator', 'deallocate_block', 1): dict(n=1, changes=('virtual_memory_decommit',), writes=('this.cur_',), lifo='block_size'),
    ('fixed_block_allocator', 'deallocate_block', 1): dict(n=1, changes=('deallocate_array',), writes=('this.block_size_',),
                                                          conds=[{'(0 == this.block_size_)', '(this.block_size_ == 0)', '!(this.block_size_)'}]),
}


def lambda_rets(db, lam_key, roles, vals=None):
    """what the check lambda returns, with captured locals replaced by the values they hold at the check (vals) and captured
    parameters of the enclosing function named by their roles"""
    lam = db.fns.get(lam_key)
    if lam is None:
        return None, None
    S = [s for s in fwd.summarize(lam, roles=roles, init_vals=vals or {}, db=db) if s.end == 'return']
    return [s.ret for s in S], [s.ret_term for s in S]


def checks_in_context(db, f, roles):
    """(lambda key -> values of locals at the check call) from plain path traces"""
    ctx = {}
    for steps in fwd.trace(f, roles=roles, db=db):
        for st in steps:
            t = st.get('t') if st['kind'] == 'ev' else None
            if isinstance(t, dict) and t.get('k') == 'call' and t.get('short') in CHECKS and t.get('args'):
                lam = sym.strip_casts(t['args'][0])
                if isinstance(lam, dict) and lam.get('k') == 'lambda':
                    ctx.setdefault(lam.get('fn'), st['vals'])
    return ctx


def check_listed(run, db):
    n = 0
    if not build.CONFIGS[db.config]['FOONATHAN_MEMORY_DEBUG_POINTER_CHECK']:
        return 1
    dd = build.CONFIGS[db.config]['FOONATHAN_MEMORY_DEBUG_DOUBLE_DEALLOC_CHECK']
    for (ct, short, np), spec in LISTED.items():
        for f in db.find(cls_t=ct, short=short):
            if len(f.params) != np:
                continue
            n += 1
            inst = '%s [%s]' % (f.display, db.config)
            site = {'function': '%s::%s' % (ct, short), 'role': 'checks precede state change'}
            froles = {0: 'block'} if 'block' in short else {0: 'mem'}
            S = [s for s in fwd.summarize(f, db=db, roles=froles, no_forward=True) if s.end == 'return']
            ctx = checks_in_context(db, f, froles)
            probs = []
            lam_keys = []
            for s in S:
                chk = [i for i, c in enumerate(s.calls) if c[1].get('short') in CHECKS]
                chg = [i for i, c in enumerate(s.calls) if c[1].get('short') in spec['changes'] and 'recv' in c[1] or (c[1].get('short') in spec['changes'] and c[1].get('short') != 'deallocate')]
                wpos = [w[4] for w in s.writes if w[0] in spec['writes']]
                first_change = min(chg + wpos) if (chg or wpos) else None
                if len(chk) != spec['n']:
                    probs.append('%d check(s) on a path, %d expected' % (len(chk), spec['n']))
                if first_change is not None and chk and max(chk) >= first_change:
                    probs.append('a check runs after the state was already changed (check #%d, first change at event %d)' % (max(chk), first_change))
                if first_change is None:
                    probs.append('no state change found (anchor vanished?)')
                for i in chk:
                    a = s.calls[i][1].get('args', [])
                    if a and sym.strip_casts(a[0]).get('k') == 'lambda':
                        lam_keys.append((sym.strip_casts(a[0]).get('fn'), s.calls[i][1]))
            if probs:
                run.violation('R-DBG.first', inst, f.loc, '; '.join(sorted(set(probs))[:2]), site=site)
            else:
                run.ok('R-DBG.first', inst, f.loc, '%d check(s), all before the first state change' % spec['n'])
            # ---- conditions
            seen = []
            for k, callt in lam_keys:
                if k in [x[0] for x in seen]:
                    continue
                rets, terms = lambda_rets(db, k, froles, ctx.get(k))
                seen.append((k, rets, terms, callt))
            cprobs = []
            if 'conds' in spec:
                pats = list(spec['conds'])
                for k, rets, terms, callt in seen:
                    r = rets[0] if rets and len(rets) == 1 else None
                    hit = [p for p in pats if r is not None and r in p]
                    if hit:
                        pats.remove(hit[0])
                    else:
                        cprobs.append('check condition `%s` is not one of the expected tests' % r)
                if pats:
                    cprobs.append('missing check(s): %s' % [sorted(p)[0] for p in pats])
            if 'lifo' in spec:
                for k, rets, terms, callt in seen:
                    t = sym.strip_casts(terms[0]) if terms and len(terms) == 1 else None
                    okk = False
                    if isinstance(t, dict) and t.get('k') == 'bin' and t['op'] == '==':
                        d = linear.sub(linear.lin(t['l'], froles), linear.lin(t['r'], froles))
                        want1 = {'$block.memory': 1, '$block.size': 1, 'this.cur_': -1}
                        want2 = {'$block.memory': 1, 'this.block_size_': 1, 'this.cur_': -1}
                        neg = lambda x: {a: -v for a, v in x.items()}
                        okk = d in (want1, want2, neg(want1), neg(want2))
                    if not okk:
                        cprobs.append('LIFO condition is `%s`, not block.memory + size == cur_' % (rets[0] if rets else None))
            # the pointer reported is the offending one
            for k, rets, terms, callt in seen:
                a = callt.get('args', [])
                if len(a) == 3:
                    rep = sym.canon(a[2], {0: 'block'} if 'block' in short else {0: 'mem'})
                    if rep not in ('$block.memory', '$mem'):
                        cprobs.append('the handler is given %s, not the released pointer' % rep)
            n += 1
            if cprobs:
                run.violation('R-DBG.cond', inst, f.loc, '; '.join(sorted(set(cprobs))[:2]), site=dict(site, role='check condition'))
            else:
                run.ok('R-DBG.cond', inst, f.loc, '; '.join(str(x[1][0]) for x in seen if x[1]))
    return n


FIND_POS_ROLES = {0: 'info', 1: 'memory', 2: 'begin_node', 3: 'end_node', 4: 'last_dealloc', 5: 'last_dealloc_prev'}
FIND_ITV_ROLES = {0: 'info', 1: 'memory', 2: 'first_prev', 3: 'first', 4: 'last', 5: 'last_next'}
EXEMPT = [
    {'greater(xor_list_get_other($begin_node,null),$memory)'},
    {'less(xor_list_get_other($end_node,null),$memory)'},
    {'less($last_dealloc_prev,$memory)', 'less($memory,$last_dealloc)'},
]


def check_search(run, db):
    n = 0
    if not build.CONFIGS[db.config]['FOONATHAN_MEMORY_DEBUG_DOUBLE_DEALLOC_CHECK']:
        return 2
    fp = [f for f in db.fns.values() if f.short == 'find_pos' and not f.pattern]
    fpi = [f for f in db.fns.values() if f.short == 'find_pos_interval' and not f.pattern]
    for f in fp:
        n += 1
        inst = '%s [%s]' % (f.display, db.config)
        probs = []
        for s in fwd.summarize(f, roles=FIND_POS_ROLES, no_forward=True):
            if s.end != 'return':
                continue
            if any('find_pos_interval' in c[0] for c in s.calls):
                continue
            pos = {c for c, tk in s.conds if tk}
            if not any(ex <= pos and not (pos - ex) for ex in EXEMPT) and not any(ex == pos for ex in EXEMPT):
                # the positive conditions must be exactly one exemption (earlier tests appear negated)
                if not any(ex == pos for ex in EXEMPT):
                    probs.append('a path returns a position without a membership test under the conditions %s, which is not one of the three strict-order exemptions' % sorted(pos))
        if probs:
            run.violation('R-DBG.search', inst, f.loc, '; '.join(sorted(set(probs))[:2]), site={'function': 'find_pos', 'role': 'untested paths are exempt'})
        else:
            run.ok('R-DBG.search', inst, f.loc, 'paths without a membership test: before first, after last, strictly between the cached pair')
    for f in fpi:
        n += 1
        inst = '%s [%s]' % (f.display, db.config)
        # values, not names: in the first iteration the forward cursor is `first`, the backward cursor is `last`
        ctx = checks_in_context(db, f, FIND_ITV_ROLES)
        lams = [sym.strip_casts(t['args'][0]).get('fn') for e, t in flow.call_events(f) if t.get('short') == 'debug_check_double_dealloc' and t.get('args')]
        # what each check lambda accepts, as facts per accepting path: the path's decided conditions plus the returned expression
        # (`a != m && b != m`, nested ifs, early `return false`s are the same set of facts)
        def accepted_facts(k):
            lam = db.fns.get(k)
            out = []
            if lam is None:
                return None
            for sm in fwd.summarize(lam, roles=FIND_ITV_ROLES, init_vals=ctx.get(k) or {}, db=db):
                if sm.end != 'return' or sm.ret == 'false':
                    continue
                atoms = list(sm.cond_terms)
                if sm.ret != 'true' and sm.ret_term is not None:
                    atoms += fwd.split_condition(sm.ret_term, True)
                facts = set()
                for a, tk in atoms:
                    a0 = sym.strip_casts(a)
                    if isinstance(a0, dict) and a0.get('k') == 'bin' and a0.get('op') in ('==', '!='):
                        differ = (a0['op'] == '!=') == bool(tk)
                        if differ:
                            facts.add(frozenset((sym.canon(a0['l'], FIND_ITV_ROLES), sym.canon(a0['r'], FIND_ITV_ROLES))))
                out.append(facts)
            return out
        acc = [accepted_facts(k) for k in lams]
        both = lambda fs: frozenset(('$first', '$memory')) in fs and frozenset(('$last', '$memory')) in fs
        in_loop = [a for a in acc if a and all(both(fs) for fs in a)]
        off_end = [a for a in acc if a is not None and not a]
        probs = []
        if not in_loop:
            probs.append('the search loop does not test the node against both cursors')
        if not off_end:
            probs.append('running off the list is not reported')
        # the two early exits use strict comparisons
        conds = set()
        for steps in fwd.trace(f, roles=FIND_ITV_ROLES, db=db):
            for st in steps:
                if st['kind'] == 'br' and not st['assume']:
                    conds.add(st['c'])
        if 'greater($first,$memory)' not in conds or 'less($last,$memory)' not in conds:
            probs.append('the early exits of the search are not the strict comparisons greater(forward cursor, memory) / less(backward cursor, memory): %s' % sorted(conds)[:3])
        if probs:
            run.violation('R-DBG.search', inst, f.loc, '; '.join(probs), site={'function': 'find_pos_interval', 'role': 'membership test in the search'})
        else:
            run.ok('R-DBG.search', inst, f.loc, 'membership test in the loop; not-found exit reports')
    return n


def _cmp_atoms(t):
    """comparison leaves of a conjunction (&, &&)"""
    t = sym.strip_casts(t)
    if isinstance(t, dict) and t.get('k') == 'bin' and t['op'] in ('&', '&&'):
        return _cmp_atoms(t['l']) + _cmp_atoms(t['r'])
    return [t]


def check_range(run, db):
    """chunk::from - the test that decides whether a released pointer belongs to a chunk - is the half-open interval
    [list memory, list memory + no_nodes * node_size): one past the last node is not inside"""
    n = 0
    roles = {0: 'node', 1: 'node_size'}
    for f in db.find(cls_t='detail::chunk', short='from'):
        n += 1
        inst = '%s [%s]' % (f.display, db.config)
        site = {'function': 'detail::chunk::from', 'role': 'half-open interval'}
        S = [s for s in fwd.summarize(f, db=db, roles=roles, no_forward=True) if s.end == 'return']
        probs = []
        lower = upper = False
        # what holds where the function answers true: the conditions the accepting path has decided plus the returned expression
        # (`a & b`, `a && b`, nested ifs and early `return false`s state the same facts)
        acc = [s for s in S if s.ret != 'false' and s.ret_term is not None]
        if len(acc) != 1:
            run.broke('chunk::from has %d accepting paths; expected a single interval test' % len(acc))
            continue
        atoms = list(acc[0].cond_terms)
        if acc[0].ret != 'true':
            for a in _cmp_atoms(acc[0].ret_term):
                atoms += fwd.split_condition(a, True)
        for a, tk in atoms:
            c = linear.compare(a, tk, roles)
            if not c:
                probs.append('`%s` is not a comparison' % sym.canon(a, roles)[:60])
                continue
            d, op = c           # d op 0
            k = d.get('$node', 0)
            unsigned_diff = any(isinstance(st, dict) and st.get('k') == 'cast' and ('unsigned' in str(st.get('to', '')) or 'size_t' in str(st.get('to', ''))) for st in subterms(a))
            rest = {x: v for x, v in d.items() if x != '$node'}
            if k < 0:
                # base - node (<|<=) 0
                if op == '<':
                    probs.append('lower bound is exclusive: the first node of the chunk is not recognised')
                elif set(rest) == {'this.list_memory()'} and rest['this.list_memory()'] == 1:
                    lower = True
                else:
                    probs.append('lower bound is %s, not the list memory' % linear.fmt(rest))
            elif k > 0:
                # node - base - N (<|<=) 0
                want = {'this.list_memory()': -1, '($node_size * this.no_nodes)': -1}
                if rest != want:
                    probs.append('upper bound is [%s], not list memory + no_nodes * node_size' % linear.fmt({x: -v for x, v in rest.items()}))
                elif op != '<':
                    probs.append('upper bound is inclusive: the address one past the last node is accepted as a node of the chunk')
                else:
                    upper = True
                    if unsigned_diff:
                        lower = True     # a single unsigned comparison of node - base covers the lower bound by wrap-around
        if not probs and not (lower and upper):
            probs.append('the test does not bound the pointer on both sides (lower=%s, upper=%s)' % (lower, upper))
        if probs:
            run.violation('R-DBG.range', inst, f.loc, '; '.join(sorted(set(probs))), site=site)
        else:
            run.ok('R-DBG.range', inst, f.loc, 'list_memory() <= node < list_memory() + no_nodes * node_size')
    return n


def check_walk(run, db):
    """chunk::contains - the double-free test of the small list - visits every free node: it starts at first_free, compares the
    node's address before following its link, follows the stored index, and stops only at the end marker no_nodes"""
    n = 0
    roles = {0: 'node', 1: 'node_size'}
    for f in db.find(cls_t='detail::chunk', short='contains'):
        n += 1
        inst = '%s [%s]' % (f.display, db.config)
        site = {'function': 'detail::chunk::contains', 'role': 'walks the whole free list'}
        probs = []
        npaths = 0
        for steps in fwd.trace(f, roles=roles, db=db):
            br = [st for st in steps if st['kind'] == 'br' and not st['assume']]
            end = [st for st in steps if st['kind'] == 'end']
            if not end or end[-1]['end'] != 'return':
                continue
            npaths += 1
            ret = sym.canon(end[-1]['ret'], roles) if end[-1]['ret'] is not None else None
            idx = 'this.first_free'
            k = 0
            last = None
            while k < len(br):
                c, tk = br[k]['c'], br[k]['taken']
                want_loop = {'(%s != this.no_nodes)' % idx, '(this.no_nodes != %s)' % idx}
                if c not in want_loop:
                    probs.append('the walk tests `%s` where the end-of-list test of index %s is expected' % (c[:70], idx[:40]))
                    break
                last = ('loop', tk)
                k += 1
                if not tk:
                    break
                mem = 'this.node_memory(%s,$node_size)' % idx
                if k >= len(br):
                    break
                c, tk = br[k]['c'], br[k]['taken']
                if c not in ('($node == %s)' % mem, '(%s == $node)' % mem):
                    probs.append('free node %s is not compared with the released pointer before its link is followed (`%s`)' % (idx[:40], c[:70]))
                    break
                last = ('eq', tk)
                k += 1
                if tk:
                    break
                idx = '*(%s)' % mem
            if k < len(br) and not probs:
                probs.append('tests after the walk decided: %s' % br[k]['c'][:60])
            if not probs:
                if last == ('eq', True) and ret != 'true':
                    probs.append('the node was found on the free list but the function returns %s' % ret)
                if last == ('loop', False) and ret != 'false':
                    probs.append('the end of the free list was reached but the function returns %s' % ret)
                if last in (('loop', True), ('eq', False)) and ret is not None:
                    probs.append('returns %s in the middle of the walk' % ret)
        if npaths < 3:
            run.broke('chunk::contains: only %d returning path(s) traced' % npaths)
            continue
        if probs:
            run.violation('R-DBG.walk', inst, f.loc, '; '.join(sorted(set(probs))[:2]), site=site)
        else:
            run.ok('R-DBG.walk', inst, f.loc, 'first_free -> compare -> follow link -> ... until no_nodes (%d paths)' % npaths)
    return n


def check_stack_unwind(run, db):
    """memory_stack::unwind checks the marker (index, end, top) before it drops blocks or moves the cursor - the rules of C06 on
    unwind, reported here as R-DBG.unwind (an unwind to a marker above the current top must be reported before state changes)"""
    from rules import c06, c05
    return c06.check_stack(c05._Renamed(run, 'R-DBG.unwind'), db)


def check_handler(run, db):
    n = 0
    pc = build.CONFIGS[db.config]['FOONATHAN_MEMORY_DEBUG_POINTER_CHECK']
    dd = build.CONFIGS[db.config]['FOONATHAN_MEMORY_DEBUG_DOUBLE_DEALLOC_CHECK']
    for f in db.find(short='debug_check_pointer'):
        n += 1
        inst = '%s [%s]' % (f.display[:120], db.config)
        S = [s for s in fwd.summarize(f, roles={0: 'condition', 1: 'info', 2: 'ptr'}, no_forward=True) if s.end in ('return', 'propagate')]
        good = True
        for s in S:
            h = [c for c in s.calls if c[1].get('short') == 'debug_handle_invalid_ptr']
            if pc:
                failed = any('condition' in c and not tk for c, tk in s.conds)
                passed = any('condition' in c and tk for c, tk in s.conds)
                if failed and (len(h) != 1 or not h[0][0].endswith('($info,$ptr)')):
                    good = False
                if passed and h:
                    good = False
                if not failed and not passed and s.end == 'return':
                    good = False
            elif h or s.calls:
                good = False
        if good:
            run.ok('R-DBG.handler', inst, f.loc, 'handler(info, ptr) iff !condition()' if pc else 'compiles to nothing')
        else:
            run.violation('R-DBG.handler', inst, f.loc, 'debug_check_pointer does not call debug_handle_invalid_ptr(info, ptr) exactly when the condition is false',
                          site={'function': 'detail::debug_check_pointer', 'role': 'handler iff condition false'})
    for f in db.find(short='debug_check_double_dealloc'):
        n += 1
        inst = '%s [%s]' % (f.display[:120], db.config)
        # by effect, debug_check_pointer seen through: the handler is called with (info, ptr) exactly when the condition is false
        # (when both macros are on), and nothing happens otherwise
        active = dd and pc
        S = [s for s in fwd.summarize(f, db=db, roles={0: 'condition', 1: 'info', 2: 'ptr'}, no_forward=True,
                                      inline_pred=lambda a, c, t: c.short == 'debug_check_pointer') if s.end in ('return', 'propagate')]
        good = bool(S)
        for s in S:
            h = [c for c in s.calls if c[1].get('short') == 'debug_handle_invalid_ptr']
            if active:
                failed = any('condition' in c and not tk for c, tk in s.conds)
                passed = any('condition' in c and tk for c, tk in s.conds)
                if failed and (len(h) != 1 or not h[0][0].endswith('($info,$ptr)')):
                    good = False
                if passed and h:
                    good = False
                if not failed and not passed and s.end == 'return':
                    good = False
            elif h or s.calls:
                good = False
        if good:
            run.ok('R-DBG.handler', inst, f.loc, 'forwards to debug_check_pointer' if dd else 'compiles to nothing')
        else:
            run.violation('R-DBG.handler', inst, f.loc, 'debug_check_double_dealloc does not forward (condition, info, ptr) to debug_check_pointer under its macro',
                          site={'function': 'detail::debug_check_double_dealloc', 'role': 'forwarding'})
    for f in db.find(short='debug_handle_invalid_ptr'):
        n += 1
        inst = '%s [%s]' % (f.display, db.config)
        okk = any(t.get('indirect') and 'get_invalid_pointer_handler' in tstr(t.get('fn')) and [sym.canon(a, {0: 'info', 1: 'ptr'}) for a in t['args']] == ['$info', '$ptr']
                  for e, t in flow.call_events(f))
        if okk:
            run.ok('R-DBG.handler', inst, f.loc, 'registered handler(info, ptr)')
        else:
            run.violation('R-DBG.handler', inst, f.loc, 'the registered invalid-pointer handler is not called with (info, ptr)',
                          site={'function': 'detail::debug_handle_invalid_ptr', 'role': 'reaches the handler'})
    return n


def run(run):
    run.rule('R-DBG.first', 'checks precede the first state change', floor=4)
    run.rule('R-DBG.cond', 'check conditions are about the offending pointer, in normal form', floor=4)
    run.rule('R-DBG.search', 'ordered-list search: membership test; exempt paths are the strict-order ones', floor=2)
    run.rule('R-DBG.range', 'chunk membership is the half-open interval of its nodes', floor=1)
    run.rule('R-DBG.walk', 'the small list\'s double-free test visits every free node', floor=1)
    run.rule('R-DBG.unwind', 'memory_stack::unwind checks the marker before changing state (shared with C06)', floor=4)
    run.rule('R-DBG.handler', 'checks reach the registered handler iff the condition is false', floor=6)
    run.rule('R-DBG.state', 'the state the release checks compare with is not changed by a request that fails: valid releases stay valid (shared rule R-THROW.7 of C03)', floor=2)
    run.explanation = ('Analysed in the Debug configuration (these functions do not exist in the pinned build). the checks of memory_stack::unwind are decided by the rules of C06 (reported here as R-DBG.unwind). '
                       'Not decided: that valid releases never trigger a report (needs the list invariants).')
    run.assumptions += ['the "most recently freed node freed twice" case ends in the unreachable-abort path, which the property accepts (stops the program)']
    for cfg in common.configs(run):
        db = build.load_db(cfg, log=run.log)
        if check_listed(run, db) < 1:
            run.broke('listed release functions not found [%s]' % cfg)
        if check_search(run, db) < 2:
            run.broke('find_pos / find_pos_interval not found [%s]' % cfg)
        from rules import c03, c05
        c03.check_failed_growth(c05._Renamed(run, 'R-DBG.state'), db, only=('static_block_allocator', 'virtual_block_allocator', 'memory_arena', 'memory_stack'))
        if check_stack_unwind(run, db) < 2:
            run.broke('memory_stack::unwind not found [%s]' % cfg)
        if check_handler(run, db) < 3:
            run.broke('debug check helpers not found [%s]' % cfg)
        if check_range(run, db) < 1 or check_walk(run, db) < 1:
            run.broke('chunk::from / chunk::contains not found [%s]' % cfg)
