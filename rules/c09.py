"""C09 - adapters forward every request faithfully and release with matching parameters.

R-FWD          per instantiated wrapper member: the request reaches the wrapped allocator on every normal path with
               size/count/alignment unchanged or provably not smaller; acquire/release siblings agree as sets of
               (path condition, call, target, argument terms)
R-FWD-TRACK    trackers see every successful operation exactly once (after acquire, before release)
R-FWD-PURE     selector purity: what a release-side selector reads must not be changeable between acquire and release
W-width        values stored between acquire and release are stored at full width
W-inst         every member of every wrapper instantiates for composable and non-composable wrapped allocators
"""
from engine import build, fwd, sym, witness, fixtures
from engine.facts import cls_template, strip_ns, top_term, subterms, tstr
from rules import fwdrules

LEVEL = 'other'

# class template -> options
WRAPPERS = {
    'allocator_storage': {},
    'reference_storage::base_allocator': {},
    'reference_storage::basic_allocator': {},
    'std_allocator': {'roles': {'allocate': {0: 'count'}, 'deallocate': {0: 'ptr', 1: 'count'}}},
    'aligned_allocator': {},
    'tracked_allocator': {},
    'tracked_block_allocator': {},
    'detail::deeply_tracked_block_allocator': {},
    'binary_segregator': {},
    'fallback_allocator': {'allow_multi': True},
    'memory_resource_adapter': {},
    'memory_resource_allocator': {},
}
# allocator_traits primary template (default fallbacks) - only for allocator types without a specialisation
SPECIALISED_TRAITS = ('memory_pool', 'memory_pool_collection', 'memory_stack', 'iteration_allocator', 'temporary_allocator')
FLOORS = {'quick': 150, 'thorough': 150}


def traits_is_primary(cls):
    inner = cls[cls.index('<') + 1:]
    return not any(cls_template(inner).startswith(s) for s in SPECIALISED_TRAITS)


def groups(db):
    """(class template, class instantiation, option dict, functions)"""
    out = []
    for ct, opt in WRAPPERS.items():
        by_cls = {}
        for f in db.find(cls_t=ct):
            by_cls.setdefault(f.cls, []).append(f)
        for cls, fns in sorted(by_cls.items()):
            out.append((ct, cls, opt, fns))
    for ct in ('allocator_traits', 'composable_allocator_traits'):
        by_cls = {}
        for f in db.find(cls_t=ct):
            if traits_is_primary(f.cls):
                by_cls.setdefault(f.cls, []).append(f)
        for cls, fns in sorted(by_cls.items()):
            out.append((ct, cls, {'traits': True}, fns))
    return out


def check_forwarding(run, db):
    seen_ct = set()
    for ct, cls, opt, fns in groups(db):
        roles = opt.get('roles', {})
        by = fwdrules.find_pairs(fns, roles)
        if not by:
            continue
        seen_ct.add(ct)
        for short, f in sorted(by.items()):
            if short in ('max_node_size', 'max_array_size', 'max_alignment', 'next_block_size'):
                continue
            if ct == 'std_allocator' and short not in ('allocate', 'deallocate'):
                continue
            r = roles.get(short)
            if opt.get('traits'):
                r = fwd.fn_roles(f)
            fwdrules.fidelity(run, 'R-FWD', db, f, ct, roles=r, allow_multi=opt.get('allow_multi', False))
        for a, b in fwdrules.PAIRS:
            if a in by and b in by:
                ra, rb = roles.get(a), roles.get(b)
                fwdrules.sibling_agreement(run, 'R-FWD', db, by[a], by[b], ct, ra, rb)
            elif (a in by) != (b in by) and ct not in ('std_allocator',) and not opt.get('traits'):
                present = a if a in by else b
                # asymmetric interface: reported by W-iface in C08; here only noted
                run.note('%s has %s but not its sibling' % (strip_ns(cls), present))
    missing = [ct for ct in WRAPPERS if ct not in seen_ct]
    if missing:
        run.broke('wrapper classes without instantiated forwarding members [%s]: %s' % (db.config, missing))


TRACKER_OF = {
    'allocate_node': ('on_node_allocation', 'after', ['R#0', '$size', '$alignment']),
    'allocate_array': ('on_array_allocation', 'after', ['R#0', '$count', '$size', '$alignment']),
    'try_allocate_node': ('on_node_allocation', 'after-if', ['R#0', '$size', '$alignment']),
    'try_allocate_array': ('on_array_allocation', 'after-if', ['R#0', '$count', '$size', '$alignment']),
    'deallocate_node': ('on_node_deallocation', 'before', ['$ptr', '$size', '$alignment']),
    'deallocate_array': ('on_array_deallocation', 'before', ['$ptr', '$count', '$size', '$alignment']),
    'try_deallocate_node': ('on_node_deallocation', 'after-if', ['$ptr', '$size', '$alignment']),
    'try_deallocate_array': ('on_array_deallocation', 'after-if', ['$ptr', '$count', '$size', '$alignment']),
    'allocate_block': ('on_allocator_growth', 'after', ['R#0.memory', 'R#0.size']),
    'deallocate_block': ('on_allocator_shrinking', 'before', ['$block.memory', '$block.size']),
}


def check_trackers(run, db):
    n = 0
    for ct in ('tracked_allocator', 'tracked_block_allocator', 'detail::deeply_tracked_block_allocator'):
        by_cls = {}
        for f in db.find(cls_t=ct):
            by_cls.setdefault(f.cls, []).append(f)
        for cls, fns in sorted(by_cls.items()):
            by = fwdrules.find_pairs(fns)
            for short, f in sorted(by.items()):
                if short not in TRACKER_OF:
                    continue
                name, when, want = TRACKER_OF[short]
                roles = fwd.fn_roles(f)
                if short == 'deallocate_block':
                    roles = {0: 'block'}
                S = [s for s in fwdrules.summaries(db, f, roles) if s.end == 'return']
                problems = []
                for s in S:
                    tcalls = [(c, t, e, pos) for (c, t, e, pos) in s.calls if t.get('k') == 'call' and t.get('short', '').startswith('on_')]
                    guarded = ct == 'detail::deeply_tracked_block_allocator'
                    tracker_set = ('this.tracker_', True) in s.conds
                    success = None
                    if when == 'after-if':
                        success = ('R#0', True) in s.conds
                        failed = ('R#0', False) in s.conds
                        if not success and not failed:
                            problems.append('try_ member does not test the result before telling the tracker')
                            continue
                    expect = 1
                    if when == 'after-if' and not success:
                        expect = 0
                    if guarded and not tracker_set:
                        expect = 0
                    if len(tcalls) != expect:
                        problems.append('tracker called %d time(s) on a path where %d is required (%s)' % (len(tcalls), expect, ' & '.join(s.cond_key()) or 'unconditional'))
                        continue
                    if expect:
                        c, t, e, pos = tcalls[0]
                        if t.get('short') != name:
                            problems.append('tracker callback %s, expected %s' % (t.get('short'), name))
                        if when == 'before' and pos != 0:
                            problems.append('tracker is told after the memory was released')
                        if when in ('after', 'after-if') and pos < 1:
                            problems.append('tracker is told before the allocation happened')
                        env_args = _call_args(c)
                        if env_args is not None and env_args != want:
                            problems.append('tracker sees (%s), the operation was (%s)' % (', '.join(env_args), ', '.join(want)))
                inst = '%s [%s]' % (f.display, db.config)
                n += 1
                if problems:
                    run.violation('R-FWD-TRACK', inst, f.loc, '; '.join(sorted(set(problems))[:3]),
                                  site={'function': '%s::%s' % (ct, short), 'role': 'tracker exactly once'})
                else:
                    run.ok('R-FWD-TRACK', inst, f.loc, '%s %s, exactly once on every successful path' % (name, when))
    if n < 10:
        run.broke('tracked allocator members not instantiated (%d) [%s]' % (n, db.config))


def _call_args(c):
    """split the canonical call string `recv.name(a,b,c)` into top-level args"""
    i = c.find('(', c.find('.on_') if '.on_' in c else 0)
    if i < 0 or not c.endswith(')'):
        return None
    body = c[i + 1:-1]
    out, depth, cur = [], 0, ''
    for ch in body:
        if ch in '([{<':
            depth += 1
        elif ch in ')]}>':
            depth -= 1
        if ch == ',' and depth == 0:
            out.append(cur)
            cur = ''
        else:
            cur += ch
    if cur:
        out.append(cur)
    return out


def check_width(run, db):
    """fields that carry a size / alignment / count from acquire to release must be at least size_t wide"""
    n = 0
    for ct in ('allocator_deleter', 'allocator_deallocator', 'allocator_polymorphic_deleter', 'allocator_polymorphic_deallocator',
               'aligned_allocator', 'threshold_segregatable'):
        for f in db.find(cls_t=ct):
            if f.short not in ('operator()',) and f.short not in fwd.CONCEPT:
                continue
            crec = db.classes.get(f.cls)
            if not crec:
                continue
            fields = {fl['name']: fl for fl in crec['fields']}
            try:
                S = fwdrules.summaries(db, f)
            except sym.PathLimit:
                continue
            used = set()
            for s in S:
                for fc in s.fwd:
                    for r, a in fc.args.items():
                        if r in ('size', 'alignment', 'count'):
                            for name in fields:
                                if 'this.%s' % name in a:
                                    used.add((name, r))
            for name, r in sorted(used):
                fl = fields[name]
                n += 1
                inst = '%s::%s carries the %s [%s]' % (strip_ns(f.cls), name, r, db.config)
                if fl.get('integer') and fl.get('bits', 64) < 64:
                    run.violation('W-width', inst, crec['loc'],
                                  'the %s passed to the release call is stored in a %d-bit field (%s): values above %d are truncated between acquire and release'
                                  % (r, fl['bits'], fl['t'], 2 ** fl['bits'] - 1),
                                  site={'function': '%s::%s' % (ct, name), 'role': 'narrow storage'})
                else:
                    run.ok('W-width', inst, crec['loc'], '%s is %s' % (name, fl['t']))
    if n < 4:
        run.broke('W-width found only %d stored release parameters [%s]' % (n, db.config))


def check_deleter_pairs(run, db):
    """allocate_unique / allocate_array_unique: the allocation's terms are what the deallocator/deleter types release with"""
    n = 0
    for f in db.find(short='allocate_unique') + db.find(short='allocate_array_unique'):
        from engine.facts import split_qual
        q = split_qual(f.name)
        if len(q) < 2 or q[-2] != 'detail':
            continue
        roles = {}
        if f.short == 'allocate_array_unique':
            roles = {0: 'count'}
        S = [s for s in fwdrules.summaries(db, f, roles) if s.end == 'return']
        inst = '%s [%s]' % (f.display, db.config)
        for s in S:
            acq = [fc for fc in s.fwd if fc.kind in ('allocate_node', 'allocate_array')]
            if len(acq) != 1:
                run.violation('R-FWD', inst, f.loc, 'expected exactly one allocation, found %d' % len(acq),
                              site={'function': 'detail::' + f.short, 'role': 'one allocation'})
                continue
            a = acq[0]
            # the deleter types constructed on this path
            dts = []
            for c, t, e, pos in s.calls:
                if t.get('k') == 'construct' and cls_template(t['type']) in ('allocator_deleter', 'allocator_deallocator'):
                    dts.append((t, c))
            if len(dts) < 2:
                run.violation('R-FWD', inst, f.loc, 'deallocator guard and final deleter not both constructed (%d)' % len(dts),
                              site={'function': 'detail::' + f.short, 'role': 'deleter construction'})
                continue
            okk = True
            why = []
            for t, c in dts:
                # find operator() of that deleter type and compare its release terms with the allocation
                ops = [g for g in db.fns.values() if g.cls == t['type'] and g.short == 'operator()']
                if not ops:
                    why.append('operator() of %s not instantiated' % strip_ns(t['type']))
                    okk = False
                    continue
                RS = [x for x in fwdrules.summaries(db, ops[0]) if x.end == 'return']
                for x in RS:
                    rel = [fc for fc in x.fwd if fc.kind.startswith('deallocate')]
                    if len(rel) != 1:
                        okk = False
                        why.append('%s releases %d times' % (strip_ns(t['type']), len(rel)))
                        continue
                    r = rel[0]
                    if fwd.ACQUIRE_OF[r.kind] != a.kind:
                        okk = False
                        why.append('allocated with %s, released with %s' % (a.kind, r.kind))
                    for role in ('size', 'alignment'):
                        if r.args.get(role) != a.args.get(role):
                            okk = False
                            why.append('%s: allocated %s, released %s' % (role, a.args.get(role), r.args.get(role)))
                    if 'count' in a.args:
                        # count travels through the deleter's size_ field: ctor must store its 2nd argument, and the
                        # construct expression must pass the allocation's count
                        if r.args.get('count') != 'this.size_':
                            okk = False
                            why.append('array deleter releases count %s' % r.args.get('count'))
                        cargs = t.get('args', [])
                        passed = sym.canon(cargs[1], roles) if len(cargs) > 1 else None
                        if passed != a.args['count']:
                            okk = False
                            why.append('deleter constructed with count %s, allocation used %s' % (passed, a.args['count']))
                        ctor = [g for g in db.fns.values() if g.cls == t['type'] and g.kind == 'ctor' and len(g.params) == 2]
                        for g in ctor:
                            inits = {e.get('field'): e for e in g.events() if e['ev'] == 'init'}
                            iv = inits.get('size_')
                            if iv is None or sym.canon(iv['e'], {0: 'alloc', 1: 'count'}) != '$count':
                                okk = False
                                why.append('array deleter constructor does not store the count it is given')
            n += 1
            if okk:
                run.ok('R-FWD', inst, f.loc, 'guard and deleter release with the terms of %s' % a)
            else:
                run.violation('R-FWD', inst, f.loc, '; '.join(sorted(set(why))[:3]),
                              site={'function': 'detail::' + f.short, 'role': 'deleter agrees with allocation'})
    if n < 4:
        run.broke('allocate_unique helpers not instantiated (%d) [%s]' % (n, db.config))


def run(run):
    run.rule('R-FWD', 'forwarding fidelity on every normal path + acquire/release sibling agreement as sets of (condition, call, target, terms)', floor=FLOORS[run.tier])
    run.rule('R-FWD-TRACK', 'tracker callbacks: exactly once per successful operation, after acquire / before release, same arguments', floor=10)
    run.rule('W-width', 'release parameters stored in fields keep full width', floor=4)
    run.rule('W-inst', 'every member of every wrapper instantiates (composable and non-composable wrapped allocator)', floor=1)
    run.explanation = ('Every instantiated member of every wrapper/storage class is summarised path by path (symbolic arguments, inlined '
                       'helpers, resolved callees) and compared with its sibling; a mismatch is a request that is released with '
                       'different kind/count/size/alignment or to a different sub-allocator on some input.')
    run.assumptions += ['instantiation matrix: drivers/storage.cpp, drivers/wrappers.cpp',
                        'wrapped allocators honour the RawAllocator concept', 'trackers do not throw (doc/concepts.md)']
    cfgs = build.QUICK_CONFIGS if run.tier == 'quick' else build.THOROUGH_CONFIGS
    witness.run_witness(run, 'W-inst', 'c09_inst.cpp', cfgs[:1] if run.tier == 'quick' else cfgs,
                        compilers=('clang++',) if run.tier == 'quick' else ('clang++', 'g++'))
    from rules import common
    for cfg in cfgs:
        db = common.load_or_skip(run, cfg, ('W-inst',))
        if db is None:
            return
        run.count('functions_analysed', len(db.fns))
        check_forwarding(run, db)
        check_trackers(run, db)
        check_width(run, db)
        check_deleter_pairs(run, db)
    fixtures.expect_fire(run, 'c09_bad.cpp', _fixture, 'R-FWD')


def _fixture(db):
    """run sibling agreement + fidelity on the fixture classes; return the names of classes that fired"""
    from engine import report
    fired = set()
    by_cls = {}
    for f in db.fns.values():
        if f.cls.startswith('verif_fix::'):
            by_cls.setdefault(f.cls, []).append(f)
    for cls, fns in by_cls.items():
        r = report.Run('C09', 'quick')
        by = fwdrules.find_pairs(fns)
        for short, f in by.items():
            fwdrules.fidelity(r, 'R-FWD', db, f, cls)
        for a, b in fwdrules.PAIRS:
            if a in by and b in by:
                fwdrules.sibling_agreement(r, 'R-FWD', db, by[a], by[b], cls)
        if any(o['verdict'] != 'ok' for o in r.obligations):
            fired.add(cls.split('::')[-1])
    return fired
