"""helpers shared by the property modules"""
from engine import build


def load_or_skip(run, cfg, witness_rules):
    """facts for cfg; if extraction fails *because* a compile-time witness already reported why (a member no longer
    compiles), return None and relax the floors of the fact-based rules: the witness violation is the verdict."""
    try:
        return build.load_db(cfg, log=run.log)
    except build.AnalysisBroken as e:
        failed = any(o['rule'] in witness_rules and o['verdict'] != 'ok' for o in run.obligations)
        if not failed:
            raise
        run.note('fact extraction failed because the tree does not compile under the drivers (reported by %s): %s'
                 % ('/'.join(witness_rules), str(e)[:200]))
        for k in run.floors:
            if k not in witness_rules:
                run.floors[k] = 0
        return None


def configs(run):
    return build.QUICK_CONFIGS if run.tier == 'quick' else build.THOROUGH_CONFIGS


def single_assignment_locals(f):
    """did -> initialiser term of the locals of f that are initialised at their declaration and never assigned again: such a
    local is just a name for its initialiser (a hoisted sub-expression), whatever it is called"""
    from engine import sym
    init, dirty = {}, set()
    for e in f.events():
        if e['ev'] == 'decl':
            for v in e['vars']:
                if isinstance(v.get('init'), dict):
                    init[v['did']] = v['init']
        elif e['ev'] in ('assign', 'incdec'):
            l = sym.strip_casts(e.get('lhs') or {})
            if isinstance(l, dict) and l.get('k') == 'local':
                dirty.add(l.get('did'))
    for e in f.events():
        t = e.get('e') if e['ev'] == 'expr' else None
        # passed by non-const reference / address taken: treat as possibly modified
        from engine.facts import subterms
        for root in [e.get('e'), e.get('rhs')] + [v.get('init') for v in e.get('vars', [])]:
            if not isinstance(root, dict):
                continue
            for st in subterms(root):
                if isinstance(st, dict) and st.get('k') == 'un' and st.get('op') == '&':
                    o = sym.strip_casts(st.get('e'))
                    if isinstance(o, dict) and o.get('k') == 'local':
                        dirty.add(o.get('did'))
    return {d: t for d, t in init.items() if d not in dirty}


def expand_locals(t, vals, depth=0):
    """replace single-assignment locals in a term by their initialisers (recursively)"""
    from engine import sym
    if not isinstance(t, dict) or depth > 8:
        return t
    if t.get('k') == 'local' and t.get('did') in vals:
        return expand_locals(vals[t['did']], vals, depth + 1)
    out = {}
    for kk, vv in t.items():
        if isinstance(vv, dict):
            out[kk] = expand_locals(vv, vals, depth)
        elif isinstance(vv, list):
            out[kk] = [expand_locals(x, vals, depth) if isinstance(x, dict) else x for x in vv]
        else:
            out[kk] = vv
    return out
