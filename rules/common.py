"""helpers shared by the property modules"""
from engine import build


def load_or_skip(run, cfg, witness_rules):
    """facts for cfg; if extraction fails *because* a compile-time witness already reported why (a member no longer
    compiles), return None and relax the floors of the fact-based rules: the witness violation is the verdict."""
    try:
        return build.load_db(cfg, log=run.log)
    except build.AnalysisBroken as e:
        failed = any(o['rule'] in witness_rules and o['verdict'] != 'ok' for o in run.obligations)
        if not failed:
            raise
        run.note('fact extraction failed because the tree does not compile under the drivers (reported by %s): %s'
                 % ('/'.join(witness_rules), str(e)[:200]))
        for k in run.floors:
            if k not in witness_rules:
                run.floors[k] = 0
        return None


def configs(run):
    return build.QUICK_CONFIGS if run.tier == 'quick' else build.THOROUGH_CONFIGS
