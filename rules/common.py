"""helpers shared by the property modules"""
from engine import build


def load_or_skip(run, cfg, witness_rules):
    """facts for cfg; if extraction fails *because* a compile-time witness already reported why (a member no longer
    compiles), return None and relax the floors of the fact-based rules: the witness violation is the verdict."""
    try:
        return build.load_db(cfg, log=run.log)
    except build.AnalysisBroken as e:
        failed = any(o['rule'] in witness_rules and o['verdict'] != 'ok' for o in run.obligations)
        if not failed:
            raise
        run.note('fact extraction failed because the tree does not compile under the drivers (reported by %s): %s'
                 % ('/'.join(witness_rules), str(e)[:200]))
        for k in run.floors:
            if k not in witness_rules:
                run.floors[k] = 0
        return None


def configs(run):
    return build.QUICK_CONFIGS if run.tier == 'quick' else build.THOROUGH_CONFIGS


def single_assignment_locals(f):
    """did -> initialiser term of the locals of f that are initialised at their declaration and never assigned again: such a
    local is just a name for its initialiser (a hoisted sub-expression), whatever it is called"""
    from engine import sym
    init, dirty = {}, set()
    for e in f.events():
        if e['ev'] == 'decl':
            for v in e['vars']:
                if isinstance(v.get('init'), dict):
                    init[v['did']] = v['init']
        elif e['ev'] in ('assign', 'incdec'):
            l = sym.strip_casts(e.get('lhs') or {})
            if isinstance(l, dict) and l.get('k') == 'local':
                dirty.add(l.get('did'))
    for e in f.events():
        t = e.get('e') if e['ev'] == 'expr' else None
        # passed by non-const reference / address taken: treat as possibly modified
        from engine.facts import subterms
        for root in [e.get('e'), e.get('rhs')] + [v.get('init') for v in e.get('vars', [])]:
            if not isinstance(root, dict):
                continue
            for st in subterms(root):
                if isinstance(st, dict) and st.get('k') == 'un' and st.get('op') == '&':
                    o = sym.strip_casts(st.get('e'))
                    if isinstance(o, dict) and o.get('k') == 'local':
                        dirty.add(o.get('did'))
    return {d: t for d, t in init.items() if d not in dirty}


def expand_locals(t, vals, depth=0):
    """replace single-assignment locals in a term by their initialisers (recursively)"""
    from engine import sym
    if not isinstance(t, dict) or depth > 8:
        return t
    if t.get('k') == 'local' and t.get('did') in vals:
        return expand_locals(vals[t['did']], vals, depth + 1)
    out = {}
    for kk, vv in t.items():
        if isinstance(vv, dict):
            out[kk] = expand_locals(vv, vals, depth)
        elif isinstance(vv, list):
            out[kk] = [expand_locals(x, vals, depth) if isinstance(x, dict) else x for x in vv]
        else:
            out[kk] = vv
    return out


def nonnull_on_path(conds, key):
    """what a path's (canonical condition, truth) pairs say about pointer `key`: True (non-null), False (null), None (nothing).
    `p`, `p != nullptr`, `nullptr != p`, `!(p == nullptr)`... all arrive here as one of three canonical spellings"""
    for c, tk in conds:
        if c == key:
            return tk
        if c == '!(%s)' % key:
            return not tk
        if c in ('(%s == null)' % key, '(null == %s)' % key, '(%s == 0)' % key, '(0 == %s)' % key):
            return not tk
        if c in ('(%s != null)' % key, '(null != %s)' % key):
            return tk
    return None


def inline_private(a, c, t):
    """inlining predicate for fwd.summarize: a non-public helper of the same class is part of its callers' paths (extracting a
    few statements into a private member function changes nothing a rule should see)"""
    return bool(c.cls) and c.cls == a.cls and c.key != a.key and bool(c.rec.get('nonpublic')) and len(c.blocks) <= 24


def is_pure_expression_fn(c):
    """a function that only computes and returns a value: no assignment to anything but its own locals, no statement-level call"""
    from engine import sym
    from engine.facts import top_term
    if len(c.blocks) > 6:
        return False
    for e in c.events():
        if e['ev'] in ('decl', 'return'):
            continue
        if e['ev'] in ('assign', 'incdec'):
            l = sym.strip_casts(e.get('lhs') or {})
            if isinstance(l, dict) and l.get('k') == 'local':
                continue
            return False
        if e['ev'] == 'expr':
            t = top_term(e)
            if isinstance(t, dict) and t.get('k') in ('call', 'construct', 'new', 'delete'):
                # sub-expression calls of the returned value are evaluated as their own elements: allowed when const / static / free
                if t.get('k') == 'call' and (t.get('constm') or 'recv' not in t):
                    continue
                return False
            continue
        return False
    return True


def inline_local_pure(a, c, t):
    """inlining predicate: a helper only this translation unit (internal linkage) or only this class (non-public) can call, which
    merely computes a value, is a name for that expression"""
    if c.key == a.key or c.pattern:
        return False
    local = (bool(c.rec.get('internal')) and not c.cls) or (bool(c.cls) and c.cls == a.cls and bool(c.rec.get('nonpublic')))
    return local and is_pure_expression_fn(c)
