"""C17 - fences catch overflows beside low-level allocations; fill patterns (structural clauses).

R-FILL.free    debug_fill_free fills the node with the freed pattern, tests the fence before (memory - fence) and after
               (memory + node_size) with the fence pattern, gives the first mismatch it found to the registered overflow
               handler as third argument, and returns the start of the front fence
R-FILL.new     debug_fill_new writes fence, new-memory, fence in that order and returns the address after the front fence
R-FENCE.lowlevel  lowlevel_allocator / virtual_memory_allocator: the extra amount allocated is exactly two fences of the size
               given to debug_fill_new / debug_fill_free, the same fence term on both sides, the pointer handed upstream on
               release is what debug_fill_free returned
R-FILL.lists   every free-list acquire function returns its node through debug_fill_new(node, size, 0) and every release
               function passes the pointer through debug_fill_free(ptr, size, 0) with the same size term
R-FILL.stack   fixed_memory_stack::allocate_unchecked: fence, alignment, new, fence - four bumps with these patterns in this order
R-FILL.arena   arena blocks are marked internal on allocation and internal-freed on deallocation
"""
import re

from engine import build, fwd, sym, flow, linear
from engine.facts import cls_template, strip_ns, top_term, subterms, tstr
from rules import common

LEVEL = 'other'


def fill_on(cfg):
    return bool(build.CONFIGS[cfg]['FOONATHAN_MEMORY_DEBUG_FILL'])


def check_fill_helpers(run, db):
    n = 0
    for f in db.find(short='debug_fill_free'):
        n += 1
        inst = '%s [%s]' % (f.display, db.config)
        roles = {0: 'memory', 1: 'node_size', 2: 'fence_size'}
        # a closure defined and called in the function itself is part of it
        S = [s for s in fwd.summarize(f, db=db, roles=roles, no_forward=True,
                                      inline_pred=lambda a, c, t: c.kind == 'lambda' and c.rec.get('parent_fn') == a.key) if s.end == 'return']
        probs = []
        if not S:
            probs.append('no normal path')
        fence_on = bool(build.CONFIGS[db.config]['FOONATHAN_MEMORY_DEBUG_FENCE'])
        for s in S:
            # by value: the fence size in effect is the parameter when fences are compiled in, 0 otherwise (forced by an assignment,
            # a ternary or an if - whatever the spelling)
            fs = '$fence_size' if fence_on else '0'
            F = {'$fence_size': 1} if fence_on else {}
            fills = [c[0] for c in s.calls if c[1].get('short') == 'debug_fill']
            tests = [c for c in s.calls if c[1].get('short') == 'debug_is_filled']
            handlers = [c for c in s.calls if c[1].get('indirect') and 'get_buffer_overflow_handler' in c[0]]
            if not any(x.startswith('debug_fill($memory,$node_size,g:debug_magic::freed_memory') for x in fills):
                probs.append('the node is not filled with the freed pattern')
            got = [c[0] for c in tests]
            sig = [(linear.lin(c.sub['args'][0], roles), linear.lin(c.sub['args'][1], roles), sym.canon(c.sub['args'][2], roles))
                   for c in tests if len(c.sub.get('args', [])) == 3]
            if (linear.sub({'$memory': 1}, F), F, 'g:debug_magic::fence_memory') not in sig:
                probs.append('the fence before the node is not tested (%s)' % got)
            if ({'$memory': 1, '$node_size': 1}, F, 'g:debug_magic::fence_memory') not in sig:
                probs.append('the fence after the node is not tested (%s)' % got)
            # each dirty result -> handler(memory, node_size, dirty)
            for c, tk in s.conds:
                if 'debug_is_filled(' in c and tk:
                    m = [h for h in handlers if h[0].endswith('($memory,$node_size,%s)' % c)]
                    if not m:
                        probs.append('a corrupted fence is found but the overflow handler is not given that address as third argument')
            for c, tk in s.conds:
                if 'debug_is_filled(' in c and not tk:
                    if any(h[0].endswith(',%s)' % c) for h in handlers):
                        probs.append('the handler is called for an intact fence')
            if s.ret_term is None or linear.lin(s.ret_term, roles) != linear.sub({'$memory': 1}, F):
                probs.append('returns %s, not the start of the front fence' % s.ret)
        _emit(run, 'R-FILL.free', f, db, probs, 'fills freed, tests both fences, reports the first corrupted byte, returns memory - fence',
              {'function': 'detail::debug_fill_free', 'role': 'fence verification'})
    for f in db.find(short='debug_fill_new'):
        n += 1
        roles = {0: 'memory', 1: 'node_size', 2: 'fence_size'}
        S = [s for s in fwd.summarize(f, db=db, roles=roles, no_forward=True) if s.end == 'return']
        probs = []
        fence_on = bool(build.CONFIGS[db.config]['FOONATHAN_MEMORY_DEBUG_FENCE'])
        F = {'$fence_size': 1} if fence_on else {}
        for s in S:
            # by value: three fills at consecutive addresses - fence (F bytes at memory), new memory (node_size bytes behind it), fence
            # (F bytes behind that); F is the parameter when fences are compiled in and 0 otherwise, however that is spelled
            fills = [c for c in s.calls if c[1].get('short') == 'debug_fill' and len(c.sub.get('args', [])) == 3]
            if len(fills) != 3:
                probs.append('%d fills, expected fence/new/fence' % len(fills))
                continue
            sig = [(linear.lin(c.sub['args'][0], roles), linear.lin(c.sub['args'][1], roles), sym.canon(c.sub['args'][2], roles)) for c in fills]
            at = {'$memory': 1}
            for k_, (sz, mg, name) in enumerate(((F, 'g:debug_magic::fence_memory', 'first'), ({'$node_size': 1}, 'g:debug_magic::new_memory', 'second'),
                                                 (F, 'g:debug_magic::fence_memory', 'third'))):
                if sig[k_] != (at, sz, mg):
                    probs.append('%s fill is %s' % (name, fills[k_][0]))
                at = linear._add(at, sz, 1)
            if s.ret_term is None or linear.lin(s.ret_term, roles) != linear._add({'$memory': 1}, F, 1):
                probs.append('returns %s, not memory + fence' % s.ret)
        _emit(run, 'R-FILL.new', f, db, probs, 'fence, new-memory, fence; returns memory + fence', {'function': 'detail::debug_fill_new', 'role': 'fill order'})
    return n


def _deref_of(t):
    """(pointer term, recognised?) if t is a byte read *P / P[i]; recognised is False when the pointer is reinterpreted to a non-char type"""
    t0 = t
    t = sym.strip_casts(t)
    if isinstance(t, dict) and t.get('k') == 'un' and t.get('op') == '*':
        raw = t.get('e')
        rec = True
        while isinstance(raw, dict) and raw.get('k') == 'cast':
            if 'char' not in str(raw.get('to', 'char')):
                rec = False
            raw = raw.get('e')
        return t['e'], rec
    if isinstance(t, dict) and t.get('k') == 'bin' and t.get('op') == '[]':
        return {'k': 'bin', 'op': '+', 'l': t['l'], 'r': t['r'], 'lptr': True}, True
    return None, True


def check_scan(run, db):
    """byte exactness of the two primitives everything else is built on:
    debug_fill writes exactly [memory, memory + size) with the pattern; debug_is_filled examines every byte of [memory, memory + size)
    in order - it answers null only where a path condition shows the examined prefix reached memory + size, and otherwise returns the
    address of the byte whose comparison failed (the first corrupted one, because everything before it was examined)."""
    n = 0
    roles = {0: 'memory', 1: 'size', 2: 'm'}
    for f in db.find(short='debug_fill'):
        if len(f.params) != 3:
            continue
        n += 1
        probs = []
        S = [s for s in fwd.summarize(f, db=db, roles=roles, no_forward=True) if s.end == 'return']
        for s in S:
            sets = [c[0] for c in s.calls if c[1].get('short') == 'memset']
            if sets != ['memset($memory,$m,$size)']:
                loops = [b for b in f.blocks.values() if b.get('term') and b['term'].get('cls') in ('ForStmt', 'WhileStmt', 'DoStmt')]
                if not sets and loops:
                    run.broke('debug_fill uses a hand-written loop: shape not recognised by R-FILL.scan')
                else:
                    probs.append('the fill is %s, not memset(memory, pattern, size)' % (sets or 'missing'))
        _emit(run, 'R-FILL.scan', f, db, probs, 'memset(memory, pattern, size)', {'function': 'detail::debug_fill', 'role': 'fills exactly the given bytes'})
    for f in db.find(short='debug_is_filled'):
        if len(f.params) != 3:
            continue
        n += 1
        probs = []
        unrec = [t.get('short') for e, t in flow.call_events(f)]
        npaths = 0
        for steps in fwd.trace(f, roles=roles, db=db):
            end = [st for st in steps if st['kind'] == 'end']
            if not end or end[-1]['end'] != 'return':
                continue
            npaths += 1
            last_is_end = False     # the last decision on the path compares something with the end of the range
            covered = {}            # linear offset from memory up to which the bytes were examined and found equal
            reached = False         # a condition showed covered >= size
            any_end_cond = False
            mismatch = None
            rec = not unrec
            for st in steps:
                if st['kind'] != 'br' or st['assume']:
                    continue
                c = sym.strip_casts(st['cond'])
                neg = False
                while isinstance(c, dict) and c.get('k') == 'un' and c.get('op') == '!':
                    neg = not neg
                    c = sym.strip_casts(c['e'])
                ptr = None
                if isinstance(c, dict) and c.get('k') == 'bin' and c['op'] in ('==', '!='):
                    for side, other in ((c['l'], c['r']), (c['r'], c['l'])):
                        p, ok = _deref_of(side)
                        if p is not None:
                            ptr, rec = p, rec and ok
                            val = sym.canon(other, roles)
                            if ok and val != '$m':
                                probs.append('a byte is compared with %s, not with the pattern' % val[:40])
                last_is_end = False
                if ptr is not None:
                    off = linear.sub(linear.lin(ptr, roles), {'$memory': 1})
                    equal = (c['op'] == '==') == (st['taken'] != neg)
                    if off != covered:
                        if rec:
                            probs.append('the byte at offset [%s] is examined while the examined prefix ends at [%s]: bytes are skipped' % (linear.fmt(off), linear.fmt(covered)))
                        continue
                    if equal:
                        covered = linear._add(covered, {'': 1}, 1)
                        reached = False
                    else:
                        mismatch = ptr
                    continue
                cmpd = linear.compare(st['cond'], st['taken'], roles)
                if cmpd and '$size' in cmpd[0]:
                    any_end_cond = True
                    last_is_end = True
                    d, op = cmpd
                    want = linear.sub({'$size': 1}, covered)          # size - covered
                    neg_want = {a: -v for a, v in want.items()}
                    if (op == '==' and d in (want, neg_want)) or (op in ('<=', '<') and d == want):
                        reached = True
            ret = end[-1]['ret']
            is_null = isinstance(sym.strip_casts(ret), dict) and sym.strip_casts(ret).get('null')
            if is_null:
                if not any_end_cond or not last_is_end:
                    probs.append('answers "all bytes carry the pattern" on a path whose last decision is not a comparison with the end of the range: '
                                 'nothing shows that the bytes up to memory + size were examined')
                elif not reached:
                    if rec:
                        probs.append('answers "all bytes carry the pattern" although only the first [%s] of size bytes were examined on that path' % linear.fmt(covered))
                    else:
                        rec = None
            elif ret is not None and rec:
                if mismatch is None:
                    probs.append('reports a corrupted byte (%s) on a path where no comparison failed' % sym.canon(ret, roles)[:50])
                elif linear.lin(ret, roles) != linear.lin(mismatch, roles):
                    probs.append('reports %s, not the address of the byte whose comparison failed (%s)' % (sym.canon(ret, roles)[:40], sym.canon(mismatch, roles)[:40]))
            if rec is None or (not rec and not probs):
                unrec = unrec or ['non-byte reads']
        if npaths < 3:
            run.broke('debug_is_filled: only %d returning path(s) traced' % npaths)
            continue
        if not probs and unrec:
            run.broke('debug_is_filled uses helpers / word-wise reads (%s): shape not recognised by R-FILL.scan' % ', '.join(sorted(set(str(u) for u in unrec)))[:80])
            continue
        _emit(run, 'R-FILL.scan', f, db, probs, 'examines memory[0..size) byte by byte, null only at the end, otherwise the failing byte (%d paths)' % npaths,
              {'function': 'detail::debug_is_filled', 'role': 'examines every byte of the range'})
    return n


def _same_class_helper(fn, callee, t):
    """small private helpers of the same class (an extracted size computation) are seen through"""
    return bool(fn.cls) and callee.cls == fn.cls and callee.key != fn.key and len(callee.blocks) <= 8 and callee.short not in ('on_allocate', 'on_deallocate')


def check_lowlevel(run, db):
    n = 0
    for ct, FENCE in (('detail::lowlevel_allocator', 'g:detail::max_alignment'), ('virtual_memory_allocator', 'g:virtual_memory_page_size')):
        by_cls = {}
        for f in db.find(cls_t=ct):
            by_cls.setdefault(f.cls, []).append(f)
        for cls, fns in sorted(by_cls.items()):
            by = {f.short: f for f in fns}
            a, d = by.get('allocate_node'), by.get('deallocate_node')
            if not a or not d:
                continue
            n += 1
            inst = '%s [%s]' % (strip_ns(cls), db.config)
            probs = []
            SA = [s for s in fwd.summarize(a, db=db, roles={0: 'size', 1: 'alignment'}, no_forward=True, inline_pred=_same_class_helper) if s.end == 'return']
            SD = [s for s in fwd.summarize(d, db=db, roles={0: 'node', 1: 'size', 2: 'alignment'}, no_forward=True, inline_pred=_same_class_helper) if s.end == 'return']
            fa = fd = None
            for s in SA:
                fn = [c for c in s.calls if c[1].get('short') == 'debug_fill_new']
                if len(fn) != 1:
                    probs.append('allocate_node fills %d times' % len(fn))
                    continue
                args = fwd_args(fn[0][0], 'debug_fill_new')
                fa = args[2] if len(args) > 2 else None
                if len(args) < 2 or args[1] != '$size':
                    probs.append('debug_fill_new marks %s bytes as new, the user asked for $size' % (args[1] if len(args) > 1 else '?'))
                if s.ret is None or not s.ret.startswith('debug_fill_new('):
                    probs.append('the pointer returned to the user is not the one after the front fence')
                if ct == 'detail::lowlevel_allocator':
                    al = [c for c in s.calls if c[1].get('short') == 'allocate' and c[1].get('static')]
                    amt = fwd_args(al[0][0], 'allocate')[0] if al else None
                    # by value: size + (fence ? 2*F : 0) when the path has not decided whether fences are on (the ternary spelling),
                    # size + 2*F / size when it has (an if, or a helper returning one or the other; the constant decides in this configuration)
                    rl = {0: 'size', 1: 'alignment'}
                    la = linear.lin(al[0].sub['args'][0], rl) if al and al[0].sub.get('args') else None
                    fence_on = bool(build.CONFIGS[db.config]['FOONATHAN_MEMORY_DEBUG_FENCE'])
                    tern = '(g:detail::debug_fence_size ? (2 * %s) : 0)' % fa
                    accepted = [{'$size': 1, tern: 1}, {'$size': 1, fa: 2} if fence_on else {'$size': 1}]
                    if la not in accepted:
                        probs.append('allocates %s bytes; with fences of %s on both sides it must be size + 2*fence (when fences are on)' % (amt, fa))
            for s in SD:
                ff = [c for c in s.calls if c[1].get('short') == 'debug_fill_free']
                if len(ff) != 1:
                    probs.append('deallocate_node checks the fences %d times' % len(ff))
                    continue
                args = fwd_args(ff[0][0], 'debug_fill_free')
                fd = args[2] if len(args) > 2 else None
                if args[:2] != ['$node', '$size']:
                    probs.append('debug_fill_free(%s): not (node, size)' % ','.join(args[:2]))
                rel = [c for c in s.calls if c[1].get('short') in ('deallocate', 'virtual_memory_release') and (c[1].get('static') or not c[1].get('cls'))]
                if not rel or not fwd_args(rel[0][0], rel[0][1]['short'])[0].startswith('debug_fill_free('):
                    probs.append('the pointer released upstream is not the start of the front fence')
            if fa != fd:
                probs.append('fence %s on allocation, %s on deallocation' % (fa, fd))
            if fa != FENCE:
                probs.append('fence is %s, expected %s' % (fa, FENCE))
            _emit(run, 'R-FENCE.lowlevel', a, db, probs, 'fence %s on both sides; size + 2*fence allocated; user pointer after the fence' % fa,
                  {'function': ct, 'role': 'fence arithmetic'})
    return n


def fwd_args(cs, name):
    i = cs.rfind(name + '(') if cs.startswith(name + '(') else cs.find(name + '(')
    if i < 0:
        return []
    body = cs[i + len(name) + 1:]
    depth = 0
    out, cur = [], ''
    for ch in body:
        if ch in '([{':
            depth += 1
        elif ch in ')]}':
            if depth == 0:
                break
            depth -= 1
        if ch == ',' and depth == 0:
            out.append(cur)
            cur = ''
        else:
            cur += ch
    out.append(cur)
    return out


LIST_FNS = {
    'detail::free_memory_list': {('allocate', 0): 'this.node_size_', ('allocate', 1): '$n', ('deallocate', 1): 'this.node_size_', ('deallocate', 2): '$n'},
    'detail::ordered_free_memory_list': {('allocate', 0): 'this.node_size_', ('allocate', 1): '$n', ('deallocate', 1): 'this.node_size_', ('deallocate', 2): '$n'},
    'detail::small_free_memory_list': {('allocate', 0): 'this.node_size_', ('deallocate', 1): 'this.node_size_'},
}


def check_lists(run, db):
    n = 0
    for ct, table in LIST_FNS.items():
        for f in db.find(cls_t=ct):
            key = (f.short, len(f.params))
            if key not in table or f.rec.get('defaulted'):
                continue
            if ct == 'detail::small_free_memory_list' and key == ('allocate', 1):
                continue
            n += 1
            size = table[key]
            roles = {0: 'n'} if key == ('allocate', 1) else ({0: 'ptr', 1: 'n'} if key[0] == 'deallocate' else {})
            S = [s for s in fwd.summarize(f, db=db, roles=roles, no_forward=True) if s.end == 'return']
            probs = []
            for s in S:
                if key[0] == 'allocate':
                    if s.ret in (None, 'null'):
                        continue
                    if s.ret.startswith('this.allocate()'):
                        continue     # single-node branch of allocate(n)
                    if not re.match(r'^debug_fill_new\(.+,%s,0\)$' % re.escape(size), s.ret):
                        probs.append('returns %s: the node does not pass through debug_fill_new(node, %s, 0)' % (s.ret[:80], size))
                else:
                    if any(c[0].startswith('this.deallocate($ptr)') for c in s.calls):
                        continue     # single-node branch of deallocate(ptr, n)
                    ff = [c[0] for c in s.calls if c[1].get('short') == 'debug_fill_free']
                    if len(ff) != 1 or not re.match(r'^debug_fill_free\(\$ptr,%s,0\)$' % re.escape(size), ff[0]) and not re.match(r'^debug_fill_free\(\$\w+,%s,0\)$' % re.escape(size), ff[0]):
                        probs.append('released memory does not pass through debug_fill_free(ptr, %s, 0): %s' % (size, ff))
            _emit(run, 'R-FILL.lists', f, db, probs, 'passes through debug_fill_%s(.., %s, 0)' % ('new' if key[0] == 'allocate' else 'free', size),
                  {'function': '%s::%s/%d' % (ct, f.short, len(f.params)), 'role': 'fill pattern'})
    return n


def check_stack_and_arena(run, db):
    n = 0
    for f in db.find(cls_t='detail::fixed_memory_stack', short='allocate_unchecked'):
        n += 1
        # decided on the effects with the class's own helpers (bump, bump_return, ...) inlined: four fills at consecutive addresses
        # starting at the old cursor, the returned address is where the new-memory fill starts, the cursor ends behind the last fill
        roles = {0: 'size', 1: 'align_offset', 2: 'fence_size'}
        S = [s for s in fwd.summarize(f, db=db, roles=roles, no_forward=True, inline_pred=lambda a, c, t: c.cls == a.cls and c.key != a.key)
             if s.end == 'return']
        probs = []
        want = [('$fence_size', 'g:debug_magic::fence_memory'), ('$align_offset', 'g:debug_magic::alignment_memory'),
                ('$size', 'g:debug_magic::new_memory'), ('$fence_size', 'g:debug_magic::fence_memory')]
        for s in S:
            fills = [c for c in s.calls if c[1].get('short') == 'debug_fill' and len(c.sub.get('args', [])) == 3]
            got = [(sym.canon(c.sub['args'][1], roles), sym.canon(c.sub['args'][2], roles)) for c in fills]
            if got != want:
                probs.append('fills are %s' % got)
                continue
            at = {'this.cur_': 1}
            new_at = None
            for c, (sz, mg) in zip(fills, want):
                if linear.lin(c.sub['args'][0], roles) != at:
                    probs.append('the %s fill starts at [%s], not at [%s] where the previous part ends' % (mg.split('::')[-1], linear.fmt(linear.lin(c.sub['args'][0], roles)), linear.fmt(at)))
                if mg.endswith('new_memory'):
                    new_at = dict(at)
                at = linear._add(at, {sz: 1}, 1)
            if s.ret_term is None or linear.lin(s.ret_term, roles) != new_at:
                probs.append('returns %s, not the start of the new-memory part' % s.ret)
            if 'this.cur_' not in s.fields or linear.lin(s.fields['this.cur_'], roles) != at:
                probs.append('the cursor does not end behind the back fence')
        if not S:
            probs.append('no returning path')
        _emit(run, 'R-FILL.stack', f, db, probs, 'fence, alignment, new (returned), fence', {'function': 'detail::fixed_memory_stack::allocate_unchecked', 'role': 'fill order'})
    for f in db.find(cls_t='memory_arena'):
        if f.short not in ('allocate_block', 'deallocate_block') or f.params:
            continue
        n += 1
        want_flag = 'false' if f.short == 'allocate_block' else 'true'
        probs = []
        S = [s for s in fwd.summarize(f, db=db, roles={}, no_forward=True, inline_pred=common.inline_private) if s.end == 'return']
        if not S:
            probs.append('no returning path')
        for s in S:
            fills = [c for c in s.calls if c[1].get('short') == 'debug_fill_internal' and len(c.sub.get('args', [])) == 3]
            if len(fills) != 1 or sym.canon(fills[0].sub['args'][2]) != want_flag:
                probs.append('block is not marked %s%s' % ('internal' if want_flag == 'false' else 'internal-freed', '' if len(S) == 1 or not fills else ' on every path'))
                continue
            a0, a1 = sym.canon(fills[0].sub['args'][0]), sym.canon(fills[0].sub['args'][1])
            if not (a0.endswith('.memory') and a1.endswith('.size') and a0[:-len('.memory')] == a1[:-len('.size')]):
                probs.append('the marked range (%s, %s) is not one block' % (a0, a1))
        _emit(run, 'R-FILL.arena', f, db, probs, 'debug_fill_internal(block.memory, block.size, %s)' % want_flag,
              {'function': 'memory_arena::' + f.short, 'role': 'internal marking'})
    return n


def _emit(run, rule, f, db, probs, okmsg, site):
    inst = '%s [%s]' % (f.display, db.config)
    if probs:
        run.violation(rule, inst, f.loc, '; '.join(sorted(set(probs))[:3]), site=site)
    else:
        run.ok(rule, inst, f.loc, okmsg)


def check_unwind_fill(run, db):
    """memory released by unwinding a stack carries the freed pattern: fixed_memory_stack::unwind(top) fills [top, cur_) before it
    moves the cursor; memory_stack::unwind fills the released part [m.top, m.end) of the marker's block on the path that crosses
    blocks (the stack is re-seated there, so the fixed stack's own unwind would see nothing to fill) and goes through the fixed
    stack's unwind on the path that stays in the block"""
    n = 0
    for f in db.find(cls_t='detail::fixed_memory_stack', short='unwind'):
        n += 1
        probs = []
        for s in fwd.summarize(f, db=db, roles={0: 'top'}, no_forward=True):
            if s.end != 'return':
                continue
            fills = [(i, c[0]) for i, c in enumerate(s.calls) if c[1].get('short') in ('debug_fill', 'debug_fill_free')]
            w = [x for x in s.writes if x[0] == 'this.cur_']
            okf = [i for i, c in fills if c in ('debug_fill($top,(this.cur_ - $top),g:debug_magic::freed_memory)', 'debug_fill_free($top,(this.cur_ - $top),0)')]
            if not okf:
                probs.append('does not fill [top, cur_) with the freed pattern (fills: %s)' % [c for i, c in fills])
            elif w and w[0][4] <= okf[0]:
                probs.append('moves the cursor before filling: the length cur_ - top is then zero')
        _emit(run, 'R-FILL.unwind', f, db, probs, 'fills [top, cur_) as freed, then moves the cursor', {'function': 'detail::fixed_memory_stack::unwind', 'role': 'released stack memory marked freed'})
    for f in db.find(cls_t='memory_stack', short='unwind'):
        n += 1
        probs = []
        for s in fwd.summarize(f, db=db, roles={0: 'm'}, no_forward=True):
            if s.end != 'return':
                continue
            names = [c[0] for c in s.calls]
            reseat = [i for i, c in enumerate(names) if c == 'this.stack_.operator=(detail::fixed_memory_stack{$m.top})']
            fill = [i for i, c in enumerate(names) if c in ('debug_fill_free($m.top,($m.end - $m.top),0)', 'debug_fill($m.top,($m.end - $m.top),g:debug_magic::freed_memory)')]
            if reseat:
                if not fill:
                    probs.append('the path that crosses blocks re-seats the stack at m.top without marking [m.top, m.end) of the marker\'s block as freed '
                                 '(after re-seating, the fixed stack has nothing left to fill)')
            elif 'this.stack_.unwind($m.top)' not in names and any('deallocate_block' in c for c in names):
                probs.append('blocks are dropped but the released part of the marker\'s block is not marked freed')
        _emit(run, 'R-FILL.unwind', f, db, probs, 'cross-block: [m.top, m.end) marked freed; same block: fixed stack unwind', {'function': 'memory_stack::unwind', 'role': 'released stack memory marked freed'})
    return n


def check_release_bytes(run, db):
    """the freed pattern is written over exactly the bytes that were handed out: the array release functions of the pools (and of
    their traits) pass the free list the same byte count as their acquire siblings (shared rule R-UNLINK.bytes of C04)"""
    from rules import c04, c05
    return c04.check_array_bytes(c05._Renamed(run, 'R-FILL.bytes'), db)


def run(run):
    run.rule('R-FILL.unwind', 'memory released by unwinding a stack is marked freed', floor=2)
    run.rule('R-FILL.bytes', 'array releases of the pools fill exactly the bytes that were acquired', floor=10)
    run.rule('R-FILL.free', 'debug_fill_free structure', floor=1)
    run.rule('R-FILL.new', 'debug_fill_new structure', floor=1)
    run.rule('R-FILL.scan', 'debug_fill writes and debug_is_filled examines exactly [memory, memory + size)', floor=2)
    run.rule('R-FENCE.lowlevel', 'fence arithmetic of the low-level allocators', floor=4)
    run.rule('R-FILL.lists', 'free lists fill on acquire and release', floor=10)
    run.rule('R-FILL.stack', 'stack fill order', floor=1)
    run.rule('R-FENCE.bound', 'the bytes a bump allocation fills - fences included - are the bytes its guard has checked (shared rule R-BOUND of C01)', floor=4)
    run.rule('R-FILL.arena', 'arena blocks marked internal / internal-freed', floor=4)
    run.explanation = ('The two byte-level primitives are decided for their recognised shapes (memset; byte scan with a cursor), every use of them by term; '
                       '"in-bounds writes are never reported" is not decided.')
    any_fill = False
    for cfg in common.configs(run):
        if not fill_on(cfg):
            continue
        any_fill = True
        db = build.load_db(cfg, log=run.log)
        if check_fill_helpers(run, db) < 2:
            run.broke('debug_fill_new/free not found [%s]' % cfg)
        if check_scan(run, db) < 2:
            run.broke('debug_fill / debug_is_filled not found [%s]' % cfg)
        if check_lowlevel(run, db) < 3:
            run.broke('low-level allocators not found [%s]' % cfg)
        if check_unwind_fill(run, db) < 2:
            run.broke('stack unwind functions not found [%s]' % cfg)
        if check_release_bytes(run, db) < 6:
            run.broke('array siblings of the pools not found [%s]' % cfg)
        if check_lists(run, db) < 8:
            run.broke('free list functions not found [%s]' % cfg)
        # a fence written behind the node must lie inside what the allocation's guard compared with the region end: the shared
        # bound rule of C01 counts both fences in the advance of the cursor
        from rules import c01, c05
        if c01.check_bound(c05._Renamed(run, 'R-FENCE.bound'), db) < 2:
            run.broke('bump allocation sites not found [%s]' % cfg)
        if check_stack_and_arena(run, db) < 3:
            run.broke('stack / arena fill sites not found [%s]' % cfg)
    if not any_fill:
        run.broke('no configuration with DEBUG_FILL in this tier')
