"""C13 - thread_safe_allocator serialises all access to the wrapped allocator.

Decided here (see DESIGN.md section 5, C13):
  R-LOCK         every event that reaches the wrapped allocator inside a forwarding member of
                 allocator_storage<P, M> happens while an RAII lock on the storage's own mutex is held
                 (forward must-dataflow over the CFG of every instantiated member).
  R-LOCK-PROXY   lock() hands out a proxy built from the storage's own mutex; the proxy's constructor
                 must-call lock(), its destructor must-call unlock() unless moved-from, the move
                 constructor nulls the source.
  R-MUTEX-STORE  mutex_storage<M>::lock/unlock forward to the mutex member; copying a storage does not
                 touch the mutex.
  R-STATELESS    functions reachable from the stateless low-level allocators write no namespace-scope /
                 static object that is not std::atomic.
  W-mutex        which mutex a storage really has (compile-time witness).
"""
from engine import build, flow, witness, callgraph, sym, fwd
from engine.facts import subterms, top_term, tstr, cls_template, strip_ns
from rules import common

LEVEL = 'other'

FORWARDERS = ['allocate_node', 'allocate_array', 'deallocate_node', 'deallocate_array',
              'max_node_size', 'max_array_size', 'max_alignment',
              'try_allocate_node', 'try_allocate_array', 'try_deallocate_node', 'try_deallocate_array']
# members that by documentation do not lock (reason per entry)
UNLOCKED_BY_CONTRACT = {
    'get_allocator': 'documented: "This does not lock the Mutex"; returns a reference only',
    'lock': 'returns the locking proxy (checked by R-LOCK-PROXY)',
    'is_composable': 'reads a type property / the type-erased vtable, not allocator state',
}
STD_RAII = ('std::lock_guard<', 'std::unique_lock<', 'std::scoped_lock<')
TRAITS = ('allocator_traits', 'composable_allocator_traits')


def is_this_deref(t):
    """*this, possibly behind casts to a base"""
    while isinstance(t, dict) and t.get('k') == 'cast':
        t = t['e']
    return isinstance(t, dict) and t.get('k') == 'un' and t['op'] == '*' and t['e'].get('k') == 'this'


def user_raii_ok(db, type_str):
    """a library-defined RAII class counts as a lock if ctor must-call lock on its argument and dtor unlock"""
    ctors = [f for f in db.fns.values() if f.cls == type_str and f.kind == 'ctor']
    dtors = [f for f in db.fns.values() if f.cls == type_str and f.kind == 'dtor']
    if not ctors or not dtors:
        return False

    def calls(name):
        def p(e):
            t = top_term(e)
            return t is not None and t.get('k') == 'call' and t.get('short') == name
        return p
    return all(flow.must_pass_through(c, calls('lock')) for c in ctors) and \
        all(flow.must_pass_through(d, calls('unlock')) for d in dtors)


def lock_analysis(db, fn):
    """returns (sensitive events with held-set, lock vars)"""
    lockvars = {}
    allocvars = set()

    def is_lock_decl(v):
        init = v.get('init')
        # the storage's own lock(): a proxy that locks in its constructor and unlocks in its destructor (R-LOCK-PROXY decides that)
        i0 = sym.strip_casts(init) if isinstance(init, dict) else None
        while isinstance(i0, dict) and i0.get('k') == 'construct' and len(i0.get('args', [])) == 1 and i0.get('ctor') in ('move', 'copy'):
            i0 = sym.strip_casts(i0['args'][0])
        if isinstance(i0, dict) and i0.get('k') == 'call' and i0.get('short') == 'lock' and i0.get('cls') == fn.cls and strip_this(i0.get('recv')) \
                and 'locked_allocator' in str(v.get('t', '')):
            return True
        if not isinstance(init, dict) or init.get('k') != 'construct':
            return False
        ty = v['t']
        args = init.get('args', [])
        if len(args) != 1 or not is_this_deref(args[0]):
            return False
        if ty.startswith(STD_RAII):
            return 'mutex_storage<' in ty
        return user_raii_ok(db, ty)

    for e in fn.events():
        if e['ev'] == 'decl':
            for v in e['vars']:
                if is_lock_decl(v):
                    lockvars[v['did']] = v
                init = v.get('init')
                if isinstance(init, dict) and any(s.get('k') == 'call' and s.get('short') in ('get_allocator', 'get')
                                                  for s in subterms(init)):
                    allocvars.add(v['did'])

    def transfer(st, e):
        if e['ev'] == 'decl':
            for v in e['vars']:
                if v['did'] in lockvars:
                    st = st | {v['did']}
        elif e['ev'] == 'dtor' and e.get('did') in lockvars:
            st = st - {e['did']}
        elif e['ev'] == 'expr':
            t = e['e']
            if t.get('k') == 'call' and isinstance(t.get('recv'), dict) and t['recv'].get('k') == 'local' \
                    and t['recv'].get('did') in lockvars:
                if t.get('short') in ('unlock', 'release'):
                    st = st - {t['recv']['did']}
                elif t.get('short') == 'lock':
                    st = st | {t['recv']['did']}
        return st

    _, before = flow.forward_must(fn, frozenset(), transfer)

    def sensitive(t):
        if t.get('k') not in ('call', 'construct'):
            return False
        if t.get('short') in ('get_allocator',) and 'args' in t and not t['args']:
            return False
        if cls_template(t.get('cls', '')) in TRAITS:
            return True
        operands = list(t.get('args', []))
        if 'recv' in t:
            operands.append(t['recv'])
        for a in operands:
            for s in subterms(a):
                if s.get('k') == 'local' and s.get('did') in allocvars:
                    return True
                if s.get('k') == 'lambda':
                    # a closure handed to the call runs (at the latest) inside it: what its body reaches, the call reaches
                    lam = db.fns.get(s.get('fn'))
                    if lam is not None:
                        for e2 in lam.events():
                            for root in (e2.get('e'), e2.get('rhs')):
                                for s2 in (subterms(root) if isinstance(root, dict) else []):
                                    if not isinstance(s2, dict):
                                        continue
                                    if s2.get('k') in ('call', 'construct') and cls_template(s2.get('cls', '')) in TRAITS:
                                        return True
                                    if s2.get('k') == 'call' and s2.get('short') == 'get_allocator':
                                        return True
                                    if s2.get('k') == 'local' and s2.get('did') in allocvars:
                                        return True
                if s.get('k') == 'call' and s.get('short') == 'get_allocator':
                    return True
                if is_this_deref(s) and t.get('short') not in ('lock_guard',) and t.get('k') == 'call' \
                        and cls_template(t.get('cls', '')) not in ('detail::mutex_storage',):
                    # *this passed on to something that is not the mutex: direct_storage IS the allocator
                    return True
        return False

    out = []
    for e in fn.events():
        t = top_term(e)
        if t is not None and sensitive(t):
            out.append((e, t, before.get((e.block, e.idx), frozenset())))
        elif t is not None and t.get('k') == 'call' and t.get('cls') == fn.cls and t.get('short') not in UNLOCKED_BY_CONTRACT \
                and t.get('short') not in ('get_allocator', 'lock') and strip_this(t.get('recv')) and t.get('key') != fn.key and _depth[0] < 3:
            # delegation to another member of the same storage (an extracted helper): fine if the lock is held here, or if every
            # access inside the helper is under a lock of its own
            callee = db.fns.get(t.get('key'))
            held = before.get((e.block, e.idx), frozenset())
            if callee is not None and not held:
                _depth[0] += 1
                try:
                    csens, clocks = lock_analysis(db, callee)
                finally:
                    _depth[0] -= 1
                if csens and all(h for _, _, h in csens):
                    lockvars.setdefault('helper:' + callee.short, {'name': 'lock taken inside ' + callee.short, 't': ''})
                    held = frozenset(['helper:' + callee.short])
                elif not csens:
                    continue
            if callee is not None:
                out.append((e, t, held))
    return out, lockvars


_depth = [0]


def strip_this(recv):
    """is the receiver the storage object itself (implicit or explicit this)?"""
    if recv is None:
        return True
    r = recv
    while isinstance(r, dict) and r.get('k') in ('cast',) or (isinstance(r, dict) and r.get('k') == 'un' and r.get('op') == '*'):
        r = r.get('e')
    return isinstance(r, dict) and r.get('k') == 'this'


def check_lock(run, db):
    fns = [f for f in db.find(cls_t='allocator_storage') if f.kind == 'method']
    seen_members = set()
    for f in fns:
        base = f.short
        if base in UNLOCKED_BY_CONTRACT:
            # they must not reach the traits at all
            bad = [t for e, t in flow.call_events(f) if cls_template(t.get('cls', '')) in TRAITS]
            if bad:
                run.violation('R-LOCK', f.display, bad[0].get('loc', f.loc),
                              '%s is documented as not locking but calls into the allocator traits' % base,
                              site={'function': 'allocator_storage::' + base, 'role': 'unlocked-by-contract reaches allocator'})
            continue
        if base not in FORWARDERS:
            if f.kind == 'method' and base.startswith('operator'):
                continue
            # an unlisted member: treat like a forwarder (a new forwarding member must lock, too)
        sens, lockvars = lock_analysis(db, f)
        nontrivial = 'no_mutex' not in f.cls.split('>, ')[-1] and 'mutex_storage<foonathan::memory::no_mutex>' not in str(lockvars)
        if not sens:
            run.violation('R-LOCK', f.display, f.loc,
                          'forwarding member contains no event that reaches the wrapped allocator (cannot be a forwarder)',
                          site={'function': 'allocator_storage::' + base, 'role': 'no forwarding event'})
            continue
        seen_members.add(base)
        for e, t, held in sens:
            inst = '%s [%s]' % (f.display, db.config)
            if held:
                run.ok('R-LOCK', inst, t.get('loc', f.loc),
                       '%s under lock %s' % (tstr(t)[:120], ','.join(lockvars[d]['name'] for d in held)))
                if nontrivial:
                    run.count('lock_obligations_with_real_mutex')
            else:
                run.violation('R-LOCK', inst, t.get('loc', f.loc),
                              'event `%s` reaches the wrapped allocator while no RAII lock on the storage\'s own mutex is held'
                              % tstr(t)[:160],
                              site={'function': 'allocator_storage::' + base, 'role': 'unlocked access'})
    missing = [m for m in FORWARDERS if m not in seen_members]
    if missing:
        run.broke('allocator_storage forwarding members not found in the facts [%s]: %s' % (db.config, missing))


def check_proxy(run, db):
    # lock(): returns lock_allocator(get_allocator(), <*this as mutex_storage>)
    locks = [f for f in db.find(cls_t='allocator_storage', short='lock')]
    if not locks:
        run.broke('allocator_storage::lock not instantiated')
    for f in locks:
        rets = [e for e in f.events() if e['ev'] == 'return']
        good = bool(rets)
        why = ''
        for r in rets:
            t = r.get('e')
            while isinstance(t, dict) and t.get('k') == 'construct' and t.get('ctor') in ('move', 'copy') and t.get('args'):
                t = t['args'][0]
            if not (isinstance(t, dict) and t.get('k') == 'call' and t.get('short') == 'lock_allocator'
                    and len(t.get('args', [])) == 2 and is_this_deref(t['args'][1])):
                good = False
                why = 'returns `%s`, not lock_allocator(get_allocator(), own mutex)' % tstr(t)[:120]
        inst = '%s [%s]' % (f.display, db.config)
        if good:
            run.ok('R-LOCK-PROXY', inst, f.loc, 'proxy is built from the storage\'s own mutex')
        else:
            run.violation('R-LOCK-PROXY', inst, f.loc, why or 'no return', site={'function': 'allocator_storage::lock', 'role': 'proxy construction'})
    # lock_allocator returns locked_allocator{alloc, m}
    for f in db.find(short='lock_allocator'):
        rets = [e for e in f.events() if e['ev'] == 'return']
        okk = False
        for r in rets:
            for s in subterms(r.get('e')):
                if s.get('k') == 'construct' and cls_template(s['type']) == 'detail::locked_allocator' and len(s.get('args', [])) == 2 \
                        and [a.get('k') for a in s['args']] == ['param', 'param'] and [a['i'] for a in s['args']] == [0, 1]:
                    okk = True
        inst = '%s [%s]' % (f.display, db.config)
        if okk:
            run.ok('R-LOCK-PROXY', inst, f.loc, 'locked_allocator{alloc, m}')
        else:
            run.violation('R-LOCK-PROXY', inst, f.loc, 'does not build locked_allocator from (alloc, m)',
                          site={'function': 'detail::lock_allocator', 'role': 'proxy construction'})

    def is_call(name, field):
        def p(e):
            t = top_term(e)
            return (t is not None and t.get('k') == 'call' and t.get('short') == name and isinstance(t.get('recv'), dict)
                    and t['recv'].get('k') == 'member' and t['recv']['name'] == field)
        return p

    n = 0
    for f in db.find(cls_t='detail::locked_allocator'):
        inst = '%s [%s]' % (f.display, db.config)
        if f.kind == 'ctor':
            n += 1
            # by value: on every returning path the stored mutex is the address of the second parameter and lock() is called once,
            # on that mutex (through the member or through a local that names it)
            rl = {0: 'alloc', 1: 'm'}
            S = [x for x in fwd.summarize(f, db=db, roles=rl, no_forward=True, inline_pred=common.inline_private) if x.end == 'return']
            okc = bool(S)
            for x in S:
                stored = sym.canon(x.fields.get('this.mutex_') or {}, rl) if 'this.mutex_' in x.fields else \
                    next((w[1] for w in x.writes if w[0] == 'this.mutex_'), None)
                locks = [c for c in x.calls if c[1].get('k') == 'call' and c[1].get('short') == 'lock' and 'recv' in c.sub]
                rc = [sym.canon(c.sub['recv'], rl) for c in locks]
                if stored != '&($m)' or len(locks) != 1 or rc[0] not in ('this.mutex_', '$m', '&($m)'):
                    okc = False
            if okc:
                run.ok('R-LOCK-PROXY', inst, f.loc, 'constructor locks the mutex it stores on every path')
            else:
                run.violation('R-LOCK-PROXY', inst, f.loc, 'constructor does not lock the mutex it was given on every path',
                              site={'function': 'detail::locked_allocator::<ctor>', 'role': 'lock on construction'})
        elif f.kind == 'dtor':
            n += 1
            # unlock exactly once on every path on which mutex_ is non-null, never on a path on which it is null; every path decides
            okd, why = True, ''
            S = [x for x in fwd.summarize(f, db=db, roles={}, no_forward=True, inline_pred=common.inline_private) if x.end == 'return']
            if not S:
                okd, why = False, 'destructor has no returning path'
            seen_unlock = False
            for x in S:
                unl = [c for c in x.calls if c[1].get('k') == 'call' and c[1].get('short') == 'unlock' and 'recv' in c.sub
                       and sym.canon(c.sub['recv']) == 'this.mutex_']
                seen_unlock = seen_unlock or bool(unl)
                nn = common.nonnull_on_path(x.conds, 'this.mutex_')
                if nn is True and len(unl) != 1:
                    okd, why = False, 'a path through the destructor skips unlock() although mutex_ may be non-null'
                elif nn is False and unl:
                    okd, why = False, 'unlock() through a null mutex_'
                elif nn is None:
                    okd, why = False, ('a path through the destructor skips unlock() although mutex_ may be non-null' if not unl
                                       else 'unlock() without testing mutex_: a moved-from proxy dereferences null')
            if S and not seen_unlock:
                okd, why = False, 'destructor never unlocks'
            if okd:
                run.ok('R-LOCK-PROXY', inst, f.loc, 'destructor unlocks unless moved-from')
            else:
                run.violation('R-LOCK-PROXY', inst, f.loc, why, site={'function': 'detail::locked_allocator::<dtor>', 'role': 'unlock on destruction'})
        elif f.kind == 'move-ctor':
            n += 1
            # by value: on every path the source's mutex pointer ends up null and this proxy holds the source's old one (assignment,
            # std::swap with a null-initialised member ... whatever the spelling)
            rl = {0: 'other'}
            S = [x for x in fwd.summarize(f, db=db, roles=rl, no_forward=True, inline_pred=common.inline_private) if x.end == 'return']
            def final(x, key):
                if key in x.fields:
                    return sym.canon(x.fields[key], rl)
                ws = [w[1] for w in x.writes if w[0] == key]
                return ws[-1] if ws else None
            if S and all(final(x, '$other.mutex_') == 'null' and final(x, 'this.mutex_') == '$other.mutex_' for x in S):
                run.ok('R-LOCK-PROXY', inst, f.loc, 'move constructor nulls the source\'s mutex (no double unlock)')
            else:
                run.violation('R-LOCK-PROXY', inst, f.loc, 'move constructor leaves the source armed: the mutex would be unlocked twice',
                              site={'function': 'detail::locked_allocator::<move-ctor>', 'role': 'source disarmed'})
    if n < 3:
        run.broke('locked_allocator special members not all instantiated (%d) [%s]' % (n, db.config))


def _paths_without_need_null_test(fn, blocked, field):
    """every entry->exit path that avoids `blocked` events must take the false edge of a branch whose
    condition is the field itself (or field != nullptr), or the true edge of !field / field == nullptr."""
    def cond_kind(t):
        # returns 'pos' if cond true means field non-null, 'neg' if cond true means null, else None
        if not isinstance(t, dict):
            return None
        if t.get('k') == 'member' and t['name'] == field:
            return 'pos'
        if t.get('k') == 'un' and t['op'] == '!' and cond_kind(t['e']) == 'pos':
            return 'neg'
        if t.get('k') == 'bin' and t['op'] in ('!=', '=='):
            sides = [t['l'], t['r']]
            if any(s.get('null') or (s.get('k') == 'lit' and s.get('v') == 0) for s in sides) and \
                    any(s.get('k') == 'member' and s['name'] == field for s in sides):
                return 'pos' if t['op'] == '!=' else 'neg'
        return None

    stack = [(fn.entry, False)]
    seen = set()
    while stack:
        b, nulltested = stack.pop()
        if (b, nulltested) in seen:
            continue
        seen.add((b, nulltested))
        blk = fn.blocks[b]
        if any(blocked(e) for e in blk['events']):
            continue
        if b == fn.exit:
            if not nulltested:
                return False
            continue
        term = blk.get('term')
        kind = cond_kind(term.get('cond')) if term else None
        for i, s in enumerate(blk['succ']):
            if s is None:
                continue
            nt = nulltested
            if kind and len(blk['succ']) == 2:
                taken_true = (i == 0)
                if (kind == 'pos' and not taken_true) or (kind == 'neg' and taken_true):
                    nt = True
            stack.append((s, nt))
    return True


def check_mutex_storage(run, db):
    found = 0
    for f in db.find(cls_t='detail::mutex_storage'):
        inst = '%s [%s]' % (f.display, db.config)
        if 'no_mutex' in f.cls:
            continue
        if f.short in ('lock', 'unlock'):
            found += 1

            def p(e, name=f.short):
                t = top_term(e)
                return (t is not None and t.get('k') == 'call' and t.get('short') == name
                        and isinstance(t.get('recv'), dict) and t['recv'].get('k') == 'member' and t['recv']['name'] == 'mutex_')
            if flow.must_pass_through(f, p):
                run.ok('R-MUTEX-STORE', inst, f.loc, '%s() forwards to mutex_.%s() on every path' % (f.short, f.short))
            else:
                run.violation('R-MUTEX-STORE', inst, f.loc, '%s() does not reach mutex_.%s() on every path' % (f.short, f.short),
                              site={'function': 'detail::mutex_storage::' + f.short, 'role': 'forward to mutex'})
        elif f.kind in ('copy-ctor', 'copy-assign', 'move-ctor', 'move-assign'):
            touches = [e for e in f.events() if any(s.get('k') == 'member' and s['name'] == 'mutex_' and
                                                   tstr(s.get('base')) != 'this' for fld in ('e', 'lhs', 'rhs')
                                                   for s in subterms(e.get(fld)))]
            if touches:
                run.violation('R-MUTEX-STORE', inst, f.loc, 'copying a storage reads or writes the other object\'s mutex',
                              site={'function': 'detail::mutex_storage::' + f.kind, 'role': 'mutex not copied'})
            else:
                run.ok('R-MUTEX-STORE', inst, f.loc, 'copy leaves the mutex alone')
    if found < 2:
        run.broke('mutex_storage<real mutex>::lock/unlock not found [%s]' % db.config)


STATELESS_ROOT_CLASSES = ['detail::lowlevel_allocator', 'detail::heap_allocator_impl', 'detail::malloc_allocator_impl',
                          'detail::new_allocator_impl', 'virtual_memory_allocator', 'detail::global_leak_checker_impl']


def check_stateless(run, db):
    roots = []
    for c in STATELESS_ROOT_CLASSES:
        roots += [f for f in db.find(cls_t=c) if f.kind in ('method',)]
    roots += [f for f in db.fns.values() if f.short in ('heap_alloc', 'heap_dealloc', 'virtual_memory_reserve', 'virtual_memory_release',
                                                       'virtual_memory_commit', 'virtual_memory_decommit') and not f.pattern]
    if len(roots) < 8:
        run.broke('stateless allocator members not found (%d) [%s]' % (len(roots), db.config))
        return
    reach, ext = callgraph.reachable_fns(db, roots)
    nwrites = 0
    for f in reach.values():
        for e in f.events():
            targets = []
            if e['ev'] in ('assign', 'incdec'):
                targets.append(e['lhs'])
            t = top_term(e)
            if t is not None and t.get('k') == 'call' and isinstance(t.get('recv'), dict) and not t.get('constm'):
                targets.append(t['recv'])
            for tg in targets:
                root = tg
                while isinstance(root, dict) and root.get('k') in ('member', 'cast') or \
                        (isinstance(root, dict) and root.get('k') == 'bin' and root.get('op') == '[]'):
                    root = root.get('base') if root.get('k') == 'member' else (root.get('e') if root.get('k') == 'cast' else root.get('l'))
                if isinstance(root, dict) and root.get('k') == 'global' and not root.get('const'):
                    nwrites += 1
                    inst = '%s writes %s [%s]' % (f.display, strip_ns(root['name']), db.config)
                    ty = root.get('t', '')
                    if ty.startswith('std::atomic<') or root.get('tls'):
                        run.ok('R-STATELESS', inst, e.loc, 'shared object is %s' % ('thread-local' if root.get('tls') else ty))
                    else:
                        run.violation('R-STATELESS', inst, e.loc,
                                      'a stateless (hence unlocked) allocator writes the non-atomic shared object %s of type %s'
                                      % (strip_ns(root['name']), ty),
                                      site={'function': strip_ns(f.name), 'role': 'write ' + strip_ns(root['name'])})
    run.count('stateless_reachable_functions', len(reach))
    if nwrites == 0 and db.config != 'release':
        run.broke('R-STATELESS found no shared-object write at all in a leak-checking configuration [%s]' % db.config)


THREAD_SAFE_ALLOWLIST = {'joint_allocator': 'documented: the joint memory belongs to one object; is_thread_safe_allocator<joint_allocator> is an explicit specialisation in joint_allocator.hpp'}


def has_state(db, cls, depth=0):
    rec = db.classes.get(cls)
    if rec is None or depth > 6:
        return None
    if rec['fields']:
        return True
    for b in rec['bases']:
        hs = has_state(db, b['t'], depth + 1)
        if hs:
            return True
    return False


def check_trait(run, db):
    """every instantiation is_thread_safe_allocator<X> that says `true` is about an X without data members"""
    n = 0
    for name, rec in db.classes.items():
        if cls_template(name) != 'is_thread_safe_allocator' or rec.get('pattern'):
            continue
        val = None
        for b in rec['bases']:
            if 'integral_constant<bool, true>' in b['t']:
                val = True
            elif 'integral_constant<bool, false>' in b['t']:
                val = False
            else:
                inner = db.classes.get(b['t'])
                # derived from another instantiation of the trait
                for bb in (inner or {}).get('bases', []):
                    if 'integral_constant<bool, true>' in bb['t']:
                        val = True
                    elif 'integral_constant<bool, false>' in bb['t']:
                        val = False
        if val is None:
            continue
        X = name[name.index('<') + 1:-1]
        n += 1
        inst = '%s [%s]' % (strip_ns(name), db.config)
        if not val:
            run.ok('R-MUTEX-TRAIT', inst, rec['loc'], 'needs the mutex')
            continue
        if cls_template(X) in THREAD_SAFE_ALLOWLIST:
            run.ok('R-MUTEX-TRAIT', inst, rec['loc'], 'listed: ' + THREAD_SAFE_ALLOWLIST[cls_template(X)])
            continue
        hs = has_state(db, X)
        if hs:
            run.violation('R-MUTEX-TRAIT', inst, rec['loc'],
                          '%s has data members (directly or through a base) but the thread-safety trait says it needs no mutex: thread_safe_allocator over it takes no lock' % strip_ns(X),
                          site={'function': 'is_thread_safe_allocator<%s>' % cls_template(X), 'role': 'thread-safety trait'})
        else:
            run.ok('R-MUTEX-TRAIT', inst, rec['loc'], 'no data members: stateless')
    return n


def run(run):
    run.rule('R-MUTEX-TRAIT', 'is_thread_safe_allocator<X> is true only for types without data members (or listed with a reason)', floor=5)
    run.rule('R-LOCK', 'every event reaching the wrapped allocator in a forwarding member of allocator_storage is executed '
                       'while an RAII lock on the storage\'s own mutex is held (forward must-dataflow over each CFG)', floor=50)
    run.rule('R-LOCK-PROXY', 'lock() builds the proxy from the own mutex; proxy ctor locks, dtor unlocks unless moved-from, move nulls source', floor=6)
    run.rule('R-MUTEX-STORE', 'mutex_storage forwards lock/unlock to its mutex member and never copies it', floor=2)
    run.rule('R-STATELESS', 'functions reachable from stateless low-level allocators write only atomic (or thread-local) shared objects', floor=1)
    run.rule('W-mutex', 'compile-time: mutex_for selects the user mutex for every stateful allocator and no_mutex only for thread-safe ones', floor=1)
    run.explanation = ('Lockset argument, statically: R-LOCK shows that each access to the wrapped allocator through a forwarding '
                       'member is dominated by a live lock on the storage\'s own mutex; R-LOCK-PROXY the same for lock(); W-mutex that the '
                       'mutex is real for stateful allocators; R-STATELESS that unlocked stateless allocators share only atomics. '
                       'Data-race freedom for every schedule follows without enumerating schedules.')
    run.assumptions += ['instantiation matrix: drivers/storage.cpp (13 storage x mutex combinations) plus library TUs',
                        'std::lock_guard/unique_lock/scoped_lock with one argument lock on construction and unlock on destruction (libstdc++ trusted)',
                        'the user Mutex type is a real mutex; libc malloc/free, operator new are thread-safe']
    cfgs = build.QUICK_CONFIGS if run.tier == 'quick' else build.THOROUGH_CONFIGS
    for cfg in cfgs:
        db = build.load_db(cfg, log=run.log)
        run.count('functions_analysed', len(db.fns))
        run.count('tus_x_configs', db.n_tus)
        check_lock(run, db)
        check_proxy(run, db)
        check_mutex_storage(run, db)
        check_stateless(run, db)
        check_trait(run, db)
    witness.run_witness(run, 'W-mutex', 'c13_mutex.cpp', cfgs,
                        compilers=('clang++',) if run.tier == 'quick' else ('clang++', 'g++'))
    selftest(run)


def selftest(run):
    """positive fixture: the rule must fire on a storage member without a lock (fixtures/c13_bad.cpp)"""
    from engine import fixtures
    fixtures.expect_fire(run, 'c13_bad.cpp', lambda db: _fixture_fires(db), 'R-LOCK')


def _fixture_fires(db):
    fired = []
    for f in db.fns.values():
        if f.cls.startswith('verif_fix::') and f.kind == 'method':
            sens, lockvars = lock_analysis(db, f)
            for e, t, held in sens:
                if not held:
                    fired.append(f.short)
    return fired
