"""C18 - capacity figures are truthful (structural clauses).

R-TERM.stride  for each free-list type, the per-node / per-chunk stride used by insert() is the same term as the factor in
               min_block_size() and the divisor in usable_size()  (round-up idioms are normalised)
R-TERM.offset  memory_pool / memory_stack / memory_arena add in min_block_size exactly the header offset the arena subtracts
               (push stores size - offset, top adds offset, pop returns size + offset)
R-MAXIMA       the maxima the traits advertise are the terms the allocation guards compare against, in the throwing and in the
               composable versions, and they bottom out in the quantity that bounds the allocation
R-COUNTER      capacity getters are the terms the bump guards use (end - top) resp. capacity * node_size
"""
import re

from engine import build, fwd, sym, fixtures, flow, witness, linear
from engine.facts import cls_template, strip_ns, top_term, subterms, tstr
from rules import common

LEVEL = 'other'


def ret_canon(db, f, roles=None, inline=None):
    S = [s for s in fwd.summarize(f, db=db, roles=roles or {}, inline_pred=inline, no_forward=True) if s.end == 'return']
    rets = [s.ret for s in S]
    # two paths that return the same expression over the larger of two operands (a ternary / if-else spelling of max, in any
    # orientation) are folded into one expression over MAX(a,b)
    if len(S) == 2 and len(S[0].conds) == 1 and len(S[1].conds) == 1 and S[0].conds[0][0] == S[1].conds[0][0] and S[0].conds[0][1] != S[1].conds[0][1]:
        c = S[0].conds[0][0]
        m = re.match(r'^\((.+) (<|<=) (.+)\)$', c)
        if m and rets[0] and rets[1]:
            a, b = m.group(1), m.group(3)
            st, sf = (S[0], S[1]) if S[0].conds[0][1] else (S[1], S[0])
            M = 'MAX(%s)' % ','.join(sorted([a, b]))
            if M in st.ret.replace(b, M) and _same_tokens(st.ret.replace(b, M), sf.ret.replace(a, M)):
                return [st.ret.replace(b, M)], S
    return rets, S


def norm_roundup(c):
    """normalise the enumerated round-up-to-alignment idioms to ROUNDUP(<t>)"""
    m = re.match(r'^\((.+) \+ align_offset\((.+),alignof\((detail::)?(chunk|chunk_base)\)\)\)$', c)
    if m and m.group(1) == m.group(2):
        return 'ROUNDUP(%s)' % m.group(1)
    m = re.match(r'^\(align_offset\((.+),alignof\((detail::)?(chunk|chunk_base)\)\) \+ (.+)\)$', c)
    if m and m.group(1) == m.group(4):
        return 'ROUNDUP(%s)' % m.group(1)
    m = re.match(r'^round_up_to_multiple_of_alignment\((.+),alignof\((detail::)?(chunk|chunk_base)\)\)$', c)
    if m:
        return 'ROUNDUP(%s)' % m.group(1)
    return c


def norm_max(c):
    """(a < b ? b : a), (b > a ? b : a), (a <= b ? b : a), (b <= a ? a : b) ... -> MAX(a,b) with sorted operands"""
    m = re.match(r'^\(\((.+) (<|<=|>|>=) (.+)\) \? (.+) : (.+)\)$', c)
    if m:
        a, op, b, x, y = m.groups()
        if {x, y} == {a, b} and x != y:
            bigger_if_true = b if op in ('<', '<=') else a
            if x == bigger_if_true:
                return 'MAX(%s)' % ','.join(sorted([a, b]))
    return c


def _same_tokens(a, b):
    """equality of canonical strings up to the order of commutative operands (the strings were built with different atom names,
    so their operands may be sorted differently): same wrapper, same multiset of atoms and operators"""
    tok = lambda x: sorted(re.findall(r'[A-Za-z_$][\w:.$]*|[-+*/%]|\d+', x))
    return tok(a) == tok(b)


def check_small_stride(run, db):
    ct = 'detail::small_free_memory_list'
    fns = {(f.short, len(f.params)): f for f in db.find(cls_t=ct)}
    ins, us, mb = fns.get(('insert', 2)), fns.get(('usable_size', 1)), fns.get(('min_block_size', 2))
    if not ins or not us:
        run.broke('small_free_memory_list::insert/usable_size not found [%s]' % db.config)
        return 0
    # insert: the divisor of `size / X`
    def divisor(f, roles):
        out = set()
        env_roles = roles
        for s in fwd.summarize(f, db=db, roles=env_roles, no_forward=True, inline_pred=lambda a, c, t: False):
            pass
        # evaluate decls symbolically on any one path: collect canon of every `$size / X` sub-term
        S = fwd.summarize(f, db=db, roles=env_roles, no_forward=True, inline_pred=lambda a, c, t: False)
        for s in S[:1]:
            env = sym.Env(f, env_roles)
            for it in s.path or []:
                if it[0] == 'ev' and it[1]['ev'] == 'decl':
                    for v in it[1]['vars']:
                        if v.get('init') is not None:
                            t = env.subst(v['init'])
                            for sub in subterms(t):
                                if sub.get('k') == 'bin' and sub.get('op') == '/' and sym.canon(sub['l'], env_roles) == '$size':
                                    out.add(sym.canon(sub['r'], env_roles))
                env.step(it)
        return out
    n = 0
    d_ins = {norm_roundup(x) for x in divisor(ins, {1: 'size'})}
    d_us = {norm_roundup(x) for x in divisor(us, {0: 'size'})}
    inst = 'small_free_memory_list stride [%s]' % db.config
    site = {'function': ct, 'role': 'chunk stride agreement'}
    n += 1
    if len(d_ins) != 1 or len(d_us) != 1:
        run.broke('could not find the chunk stride in insert (%s) / usable_size (%s)' % (d_ins, d_us))
        return n
    x_ins, x_us = d_ins.pop(), d_us.pop()
    if x_ins == x_us:
        run.ok('R-TERM.stride', inst + ' insert/usable_size', us.loc, 'both divide by %s' % x_ins)
    else:
        run.violation('R-TERM.stride', inst + ' insert/usable_size', us.loc,
                      'insert() places chunks every %s bytes, usable_size() counts one chunk per %s bytes: the figures disagree whenever the chunk size is not a multiple of the chunk alignment'
                      % (x_ins, x_us), site=dict(site, role='usable_size vs insert'))
    if mb is not None:
        n += 1
        rets, _ = ret_canon(db, mb, {0: 'node_size', 1: 'number_of_nodes'})
        r = rets[0] if rets else ''
        # factor multiplying chunk_count(n)
        m = re.match(r'^\((.+) \* this\.chunk_count\(\$number_of_nodes\)\)$', r) or re.match(r'^\((.+) \* .*chunk_count\(\$number_of_nodes\)\)$', r) \
            or re.match(r'^\(.*chunk_count\(\$number_of_nodes\) \* (.+)\)$', r)
        fac = norm_roundup(m.group(1)) if m else None
        want = x_ins.replace('this.node_size_', '$node_size')
        if fac is None:
            run.broke('min_block_size of the small list has an unrecognised form: %s' % r)
        elif _same_tokens(fac, want):
            run.ok('R-TERM.stride', inst + ' min_block_size', mb.loc, 'per-chunk factor %s' % fac)
        else:
            run.violation('R-TERM.stride', inst + ' min_block_size', mb.loc,
                          'min_block_size() reserves %s per chunk but insert() needs %s: a block of min_block_size(node_size, n) bytes holds fewer than n nodes '
                          'when n is a multiple of the chunk capacity' % (fac, want), site=dict(site, role='min_block_size vs insert'))
    return n


def check_node_lists(run, db):
    n = 0
    for ct in ('detail::free_memory_list', 'detail::ordered_free_memory_list'):
        fns = {(f.short, len(f.params)): f for f in db.find(cls_t=ct)}
        us, mb, ii = fns.get(('usable_size', 1)), fns.get(('min_block_size', 2)), fns.get(('insert_impl', 2))
        ctor = [f for f in db.find(cls_t=ct, kind='ctor') if len(f.params) == 1]
        if not us or not ii or not ctor:
            continue
        n += 1
        inst = '%s [%s]' % (ct, db.config)
        probs = []
        ru, _ = ret_canon(db, us, {0: 'size'})
        if ru != ['(($size / this.node_size_) * this.node_size_)'] and ru != ['(this.node_size_ * ($size / this.node_size_))']:
            probs.append('usable_size is %s, insert links size / node_size_ nodes of node_size_ bytes' % ru)
        # counted at the public insert(mem, size), with the private helper seen through: it may take the bytes or the node count
        ins = fns.get(('insert', 2))
        tgt = ins or ii
        cnt = [w for s in fwd.summarize(tgt, db=db, roles={1: 'size'}, no_forward=True,
                                        inline_pred=lambda a, c, t: c.short == 'insert_impl' and c.cls == a.cls) for w in s.writes if w[0] == 'this.capacity_']
        if not cnt or not all('($size / this.node_size_)' in w[1] for w in cnt):
            probs.append('insert_impl does not count size / node_size_ nodes')
        # node_size_ is max(node_size, min_element_size) in the constructor and in min_block_size
        init = [e for e in ctor[0].events() if e['ev'] == 'init' and e.get('field') == 'node_size_']
        ns = norm_max(sym.canon(init[0]['e'], {0: 'node_size'})) if init else None
        if mb is not None:
            rets, _ = ret_canon(db, mb, {0: 'node_size', 1: 'number_of_nodes'})
            r = rets[0] if rets else ''
            m = re.match(r'^\(\$number_of_nodes \* (.+)\)$', r) or re.match(r'^\((.+) \* \$number_of_nodes\)$', r)
            fac = norm_max(m.group(1)) if m else None
            if fac is None:
                probs.append('min_block_size has an unrecognised form: %s' % r)
            elif ns is None or fac != ns:
                probs.append('min_block_size uses %s per node, the list uses node_size_ = %s' % (fac, ns))
        if probs:
            run.violation('R-TERM.stride', inst, us.loc, '; '.join(probs), site={'function': ct, 'role': 'node stride agreement'})
        else:
            run.ok('R-TERM.stride', inst, us.loc, 'usable_size, insert_impl and min_block_size use node_size_ = %s' % ns)
    return n


def check_offsets(run, db):
    n = 0
    OFF = 'detail::memory_block_stack::implementation_offset()'
    bs = {f.short: f for f in db.find(cls_t='detail::memory_block_stack')}
    if not all(k in bs for k in ('push', 'pop', 'top')):
        run.broke('memory_block_stack push/pop/top not found [%s]' % db.config)
        return 0
    inst = 'memory_block_stack [%s]' % db.config
    site = {'function': 'detail::memory_block_stack', 'role': 'header offset agreement'}
    probs = []
    # push: new node gets block.size - offset
    pushed = None
    for sm in fwd.summarize(bs['push'], db=db, roles={0: 'block'}, no_forward=True):
        for c in sm.calls:
            t = getattr(c, 'sub', None) or c[1]
            if t.get('k') == 'new':
                args = (t.get('init') or {}).get('args', [])
                if len(args) == 2:
                    pushed = linear.lin(args[1], {0: 'block'})
    if pushed not in ({'$block.size': 1, OFF: -1}, {'$block.size': 1, 'this.implementation_offset()': -1}):
        probs.append('push stores [%s] as usable size' % (linear.fmt(pushed) if pushed is not None else None))
    rp, _ = ret_canon(db, bs['pop'])
    if not rp or not any(('usable_size + ' in (r or '') or ' + ' in (r or '')) and 'implementation_offset()' in (r or '') for r in rp):
        probs.append('pop returns %s: not the pushed block (usable_size + offset)' % rp)
    rt, _ = ret_canon(db, bs['top'])
    if not rt or not all('implementation_offset()' in (r or '') and 'usable_size' in (r or '') for r in rt):
        probs.append('top returns %s: not (node + offset, usable_size)' % rt)
    n += 1
    if probs:
        run.violation('R-TERM.offset', inst, bs['push'].loc, '; '.join(probs), site=site)
    else:
        run.ok('R-TERM.offset', inst, bs['push'].loc, 'push: size - offset; top: node + offset, usable_size; pop: usable_size + offset')
    # next_block_size(): upstream size minus the header offset when the next block comes from upstream, the cached block's usable size
    # (the offset was taken off when it was pushed) when it comes from the cache
    for f in db.find(cls_t='memory_arena', short='next_block_size'):
        n += 1
        inst = '%s [%s]' % (f.display, db.config)
        cases = []
        for sm in fwd.summarize(f, db=db, roles={}, no_forward=True):
            if sm.end != 'return' or sm.ret_term is None:
                continue
            t = sym.strip_casts(sm.ret_term)
            if isinstance(t, dict) and t.get('k') == 'cond':
                cases += [(sym.canon(t['c']), True, t['t']), (sym.canon(t['c']), False, t['f'])]
            else:
                for c, tk in sm.conds:
                    cases.append((c, tk, sm.ret_term))
        nprobs = []
        seen_up = seen_cache = False
        for c, tk, v in cases:
            if 'cache_empty()' not in c:
                continue
            lv = linear.lin(v)
            offs = sum(cf for a, cf in lv.items() if 'implementation_offset()' in a)
            rest = {a: cf for a, cf in lv.items() if 'implementation_offset()' not in a}
            if tk:
                seen_up = True
                if offs != -1 or len(rest) != 1 or list(rest.values()) != [1] or 'next_block_size()' not in list(rest)[0]:
                    nprobs.append('with an empty cache it reports [%s], not the block source\'s next size minus one header offset' % linear.fmt(lv))
            else:
                seen_cache = True
                if offs != 0 or len(rest) != 1 or list(rest.values()) != [1] or 'cached_block_size()' not in list(rest)[0]:
                    nprobs.append('with a cached block it reports [%s], not that block\'s usable size (the header offset was already taken off when it was cached)' % linear.fmt(lv))
        if not (seen_up and seen_cache) and not nprobs:
            run.broke('memory_arena::next_block_size: the cache / upstream cases were not recognised')
        elif nprobs:
            run.violation('R-TERM.offset', inst, f.loc, '; '.join(sorted(set(nprobs))), site={'function': 'memory_arena::next_block_size', 'role': 'usable size of the next block'})
        else:
            run.ok('R-TERM.offset', inst, f.loc, 'upstream next size - offset | cached usable size')
    # min_block_size of pool / stack / arena add exactly that offset
    for ct in ('memory_pool', 'memory_stack', 'memory_arena'):
        for f in db.find(cls_t=ct, short='min_block_size'):
            n += 1
            rets, _ = ret_canon(db, f, {0: 'node_size', 1: 'number_of_nodes'} if ct == 'memory_pool' else {0: 'byte_size'})
            r = rets[0] if rets else ''
            inst = '%s [%s]' % (f.display, db.config)
            okk = r.count('implementation_offset()') == 1 and r.startswith('(') and ' + ' in r and ' - ' not in r
            if ct == 'memory_pool':
                okk = okk and 'min_block_size($node_size,$number_of_nodes)' in r
            else:
                okk = okk and '$byte_size' in r
            if okk:
                run.ok('R-TERM.offset', inst, f.loc, r)
            else:
                run.violation('R-TERM.offset', inst, f.loc, 'min_block_size is %s: it must add exactly the arena header offset to what the payload needs' % r,
                              site={'function': ct + '::min_block_size', 'role': 'adds the arena offset'})
    return n


MAXIMA = {
    # traits class template argument -> {getter: expected bottom (canonical, after inlining the allocator's own accessors)}
    'memory_pool': {'max_node_size': r'\$state\.free_list_\.node_size_$|\$state\.node_size\(\)$', 'max_array_size': r'next_capacity\(\)$', 'max_alignment': r'alignment\(\)$'},
    'memory_stack': {'max_node_size': r'next_capacity\(\)$', 'max_array_size': r'next_capacity\(\)$'},
    'memory_pool_collection': {'max_node_size': r'max_node_size\(\)$', 'max_array_size': r'next_capacity\(\)$'},
}


def check_maxima(run, db):
    n = 0
    for f in db.find(cls_t='allocator_traits'):
        inner = cls_template(f.cls[f.cls.index('<') + 1:])
        if inner not in MAXIMA or f.short not in ('allocate_node', 'allocate_array'):
            continue
        # every size check compares against a getter of the same traits class (or the allocator's own max function)
        checks = [t for e, t in flow.call_events(f) if t.get('short') == 'check_allocation_size']
        inst = '%s [%s]' % (f.display, db.config)
        if not build.CONFIGS[db.config]['FOONATHAN_MEMORY_CHECK_ALLOCATION_SIZE']:
            continue
        n += 1
        probs = []
        for t in checks:
            args = t.get('args', [])
            if len(args) < 2:
                continue
            sup = sym.strip_casts(args[1])
            if sup.get('k') == 'lambda':
                lam = db.fns.get(sup.get('fn'))
                ok_l = lam is not None and any(tt.get('short', '').startswith('max_') or tt.get('short') in ('alignment_for', 'next_capacity')
                                               for e, tt in flow.call_events(lam))
                if not ok_l:
                    probs.append('a size check compares against a lambda that does not call an advertised maximum')
            elif sup.get('k') == 'call':
                if not (sup.get('short', '').startswith('max_') and sup.get('cls') == f.cls):
                    probs.append('a size check compares against %s, not an advertised maximum of the same traits' % tstr(sup)[:60])
            else:
                probs.append('a size check compares against %s' % sym.canon(sup)[:60])
        if not checks and inner != 'memory_stack' and inner != 'memory_pool_collection':
            probs.append('no size check')
        if probs:
            run.violation('R-MAXIMA', inst, f.loc, '; '.join(sorted(set(probs))), site={'function': 'allocator_traits<%s>::%s' % (inner, f.short), 'role': 'guard is the advertised maximum'})
        else:
            run.ok('R-MAXIMA', inst, f.loc, '%d check(s) against the advertised maxima' % len(checks))
    # composable versions compare with the same getters
    for f in db.find(cls_t='composable_allocator_traits'):
        inner = cls_template(f.cls[f.cls.index('<') + 1:])
        if inner != 'memory_pool' or not f.short.startswith('try_allocate'):
            continue
        n += 1
        # every path that reaches the pool has compared the request with each advertised maximum (conditions by value: a hoisted
        # `const bool size_ok = size <= max` is the comparison it names)
        need = ['max_node_size', 'max_alignment'] + (['max_array_size'] if 'array' in f.short else [])
        missing = []
        for sm in fwd.summarize(f, db=db, no_forward=True):
            if sm.end != 'return' or sm.ret in ('null', 'false'):
                continue
            txt = ' '.join(c for c, tk in sm.conds)
            missing += [g for g in need if g not in txt and g not in missing]
        inst = '%s [%s]' % (f.display, db.config)
        if missing:
            run.violation('R-MAXIMA', inst, f.loc, 'the composable version does not test %s: a request above the advertised maximum could succeed' % missing,
                          site={'function': 'composable_allocator_traits<memory_pool>::' + f.short, 'role': 'guard is the advertised maximum'})
        else:
            run.ok('R-MAXIMA', inst, f.loc, 'tests %s' % need)
    # getters bottom out
    for f in db.find(cls_t='allocator_traits'):
        inner = cls_template(f.cls[f.cls.index('<') + 1:])
        if inner in MAXIMA and f.short in MAXIMA[inner]:
            n += 1
            rets, _ = ret_canon(db, f, {0: 'state'})
            r = rets[0] if rets else ''
            inst = '%s [%s]' % (f.display, db.config)
            if re.search(MAXIMA[inner][f.short], r or ''):
                run.ok('R-MAXIMA', inst, f.loc, 'is %s' % r)
            else:
                run.violation('R-MAXIMA', inst, f.loc, '%s returns %s, which is not the quantity that bounds the allocation' % (f.short, r),
                              site={'function': 'allocator_traits<%s>::%s' % (inner, f.short), 'role': 'advertised maximum'})
    return n


COUNTERS = {
    ('memory_stack', 'capacity_left'): r'^\(this\.block_end\(\) - this\.stack_\.top\(\)\)$',
    ('memory_pool', 'capacity_left'): r'^\(this\.free_list_\.capacity\(\) \* this\.node_size\(\)\)$|^\(this\.node_size\(\) \* this\.free_list_\.capacity\(\)\)$',
    ('memory_pool', 'next_capacity'): r'^this\.free_list_\.usable_size\(this\.arena_\.next_block_size\(\)\)$',
    ('memory_pool_collection', 'capacity_left'): r'^\(this\.block_end\(\) - this\.stack_\.top\(\)\)$',
    # the class's own accessors (capacity_left(i), cur_iteration()) are inlined: both overloads bottom out in the same difference
    ('iteration_allocator', 'capacity_left'): r'^\(this\.block_end\((\$i|this\.cur_)\) - this\.stacks_\[\1\]\.top\(\)\)$',
    ('detail::joint_stack', 'capacity_left'): r'^\(this\.end_ - this\.top\(\)\)$',
}


def check_counters(run, db):
    n = 0
    for (ct, short), pat in COUNTERS.items():
        for f in db.find(cls_t=ct, short=short):
            n += 1
            # the class's own const accessors are seen through, except the ones the expected terms are written in
            own = (lambda a, c, t: bool(c.cls) and c.cls == a.cls and c.key != a.key and c.rec.get('constm') and len(c.blocks) <= 12
                   and c.short not in ('block_end', 'block_start', 'node_size', 'top', 'next_capacity'))
            rets, _ = ret_canon(db, f, {0: 'i'} if f.params else {}, inline=own)
            r = rets[0] if rets else ''
            if ct == 'iteration_allocator':
                from rules import c07
                r = c07.norm_end(r or '')
            inst = '%s [%s]' % (f.display, db.config)
            if re.match(pat, r or ''):
                run.ok('R-COUNTER', inst, f.loc, r)
            else:
                run.violation('R-COUNTER', inst, f.loc, '%s returns %s, not the quantity the allocation guard uses' % (short, r),
                              site={'function': '%s::%s' % (ct, short), 'role': 'capacity getter'})
    return n


def run(run):
    run.rule('R-BUCKET', 'the collection\'s maximum node size and list lookup use one index arithmetic (shared with C02)', floor=8)
    run.rule('R-TERM.stride', 'insert / usable_size / min_block_size agree on the per-node resp. per-chunk stride', floor=4)
    run.rule('R-TERM.offset', 'arena header offset: push/top/pop agree; min_block_size adds exactly it', floor=6)
    run.rule('R-MAXIMA', 'guards compare against the advertised maxima; maxima bottom out in the bounding quantity', floor=20)
    run.rule('R-COUNTER', 'capacity getters are the guard terms', floor=10)
    run.rule('R-MAXIMA.bound', 'a request above what the allocator advertises is refused: guard == bytes taken (shared rule R-BOUND of C01)', floor=10)
    run.explanation = ('Numeric truth of the formulas on every (size, count) is not evaluated; they are decided up to term equality under enumerated '
                       'rewrite rules (round-up idioms, max idioms, commutativity).')
    for cfg in common.configs(run):
        db = build.load_db(cfg, log=run.log)
        from rules import c02
        if c02.check_buckets(run, db) < 6:
            run.broke('free_list_array / access policies not found [%s]' % cfg)
        check_small_stride(run, db)
        check_node_lists(run, db)
        check_offsets(run, db)
        check_maxima(run, db)
        check_counters(run, db)
        # what an allocator advertises as capacity is an upper bound for what it serves: the guard of every bump allocation bounds
        # exactly the bytes it then takes, also on the path that grows (shared rule R-BOUND of C01)
        from rules import c01, c05
        c01.check_bound(c05._Renamed(run, 'R-MAXIMA.bound'), db)
