"""C02 - returned memory honours the requested size, count and alignment (structural clauses).

R-ALIGN.term   the address a bump stack hands out is  X + align_offset(X, alignment)  with one and the same X = cursor + fence:
               the offset is computed from the cursor that is actually bumped (also after the stack switched to a new block)
R-ALIGN.pool   pools reject alignments above what their nodes guarantee (throwing: bad_alignment check before allocating;
               composable: null on the same comparison); the collection reserves with max_alignment and aligns block remainders to it
R-ALIGN.insert memory the pools give to a free list is a block start, a max-aligned stack allocation, or X + align_offset(X, max_alignment)
               for one and the same X (cursor helpers inlined)
R-RUN          the array search returns a run only after an accumulator that grows by the node size on the contiguous branch and is
               reset on a gap reached the requested byte count; callers pass (bytes, node size) in that order
R-BOUND        the size bytes behind the returned address are inside the region: shared bound rule of C01 (advance == checked amount,
               no unsigned wrap in the guard) over every function that moves a bump cursor
R-FWD          aligned_allocator forwards an alignment that is provably >= the requested one in all eight members (shared rule)
"""
import re

from engine import build, fwd, sym, flow, linear
from engine.facts import cls_template, strip_ns, top_term, subterms, tstr
from rules import common, c01, fwdrules

LEVEL = 'other'


def check_align_term(run, db):
    n = 0
    cands = []
    for ct, short in (('detail::fixed_memory_stack', 'allocate'), ('memory_stack', 'allocate'), ('iteration_allocator', 'allocate')):
        cands += db.find(cls_t=ct, short=short)
    for f in cands:
        # (end, size, alignment, fence) for the fixed stack, (size, alignment) for the others: the alignment is identified by position
        ai = {4: 2, 2: 1}.get(len(f.params))
        if ai is None:
            continue
        roles = {ai: 'alignment'}
        try:
            S = [s for s in fwd.summarize(f, db=db, inline_pred=c01.inline_cursor, no_forward=True, roles=roles) if s.end == 'return']
        except sym.PathLimit as e:
            run.broke(str(e))
            continue
        n += 1
        probs = []
        unrec = []
        good = 0
        for s in S:
            r = s.ret
            if r in (None, 'null'):
                continue
            # strip the outer "+ nothing": the returned value is the cursor after fence and alignment bumps
            m = re.match(r'^\((.+) \+ align_offset\((.+),\$alignment\)\)$', r) or re.match(r'^\(align_offset\((.+),\$alignment\) \+ (.+)\)$', r)
            if not m:
                unrec.append(r[:140])
                continue
            a, b = m.group(1), m.group(2)
            if a != b:
                probs.append('the alignment offset is computed for %s but added to %s: after the cursor moved (new block) the offset is stale' % (b[:70], a[:70]))
                continue
            good += 1
        inst = '%s [%s]' % (f.display, db.config)
        if probs:
            run.violation('R-ALIGN.term', inst, f.loc, '; '.join(sorted(set(probs))[:2]), site={'function': c01.site_name(f), 'role': 'offset of the cursor that is bumped'})
        elif unrec:
            # a shape the rule does not know is never reported as a violation
            run.broke('%s returns %s: not of the recognised form <aligned base> + align_offset(<base>, alignment)' % (f.display, unrec[0]))
        elif good == 0:
            run.broke('no returning path of %s yields memory' % f.display)
        else:
            run.ok('R-ALIGN.term', inst, f.loc, '%d path(s): X + align_offset(X, alignment)' % good)
    return n


def check_pool_alignment(run, db):
    n = 0
    if not build.CONFIGS[db.config]['FOONATHAN_MEMORY_CHECK_ALLOCATION_SIZE']:
        return 10
    for f in db.find(cls_t='allocator_traits'):
        inner = cls_template(f.cls[f.cls.index('<') + 1:])
        if inner not in ('memory_pool', 'memory_pool_collection') or f.short not in ('allocate_node', 'allocate_array'):
            continue
        n += 1
        inst = '%s [%s]' % (f.display, db.config)
        evs = list(f.events())
        chk = None
        for e in evs:
            t = top_term(e)
            if t is not None and t.get('k') == 'call' and t.get('short') == 'check_allocation_size' and 'bad_alignment' in t.get('callee', ''):
                a0 = sym.canon(t['args'][0], fwd.fn_roles(f))
                if a0 == '$alignment':
                    chk = e
        alloc = [e for e in evs if top_term(e) is not None and top_term(e).get('k') == 'call' and top_term(e).get('short') in ('allocate_node', 'allocate_array')
                 and 'recv' in top_term(e)]
        # what the alignment is compared with: the alignment the pool's nodes really have
        bound_bad = None
        if chk is not None:
            t = top_term(chk)
            b = sym.strip_casts(t['args'][1]) if len(t.get('args', [])) > 1 else {}
            roles = fwd.fn_roles(f)
            if b.get('k') == 'lambda' and db.fns.get(b.get('fn')) is not None:
                rets = sorted({str(sm.ret) for sm in fwd.summarize(db.fns[b['fn']], db=db, roles=roles, no_forward=True) if sm.end == 'return'})
            else:
                rets = [sym.canon(b, roles)]
            if inner == 'memory_pool_collection':
                # nodes of the pool for `size` are spaced by the bucket's node size: only the natural alignment of the size is guaranteed
                if rets != ['alignment_for($size)']:
                    bound_bad = 'the alignment is checked against %s, the nodes of a collection only guarantee alignment_for(size)' % rets
            else:
                if not (len(rets) == 1 and re.search(r'max_alignment\(\$state\)$', rets[0])):
                    bound_bad = 'the alignment is checked against %s, not against the pool\'s max_alignment' % rets
        if bound_bad:
            run.violation('R-ALIGN.pool', inst, f.loc, bound_bad, site={'function': 'allocator_traits<%s>::%s' % (inner, f.short), 'role': 'alignment bound'})
        elif chk is None:
            run.violation('R-ALIGN.pool', inst, f.loc, 'no bad_alignment check of the requested alignment', site={'function': 'allocator_traits<%s>::%s' % (inner, f.short), 'role': 'alignment check'})
        elif not alloc or not f.ev_dominates(chk, alloc[0]):
            run.violation('R-ALIGN.pool', inst, f.loc, 'the alignment check does not precede the allocation', site={'function': 'allocator_traits<%s>::%s' % (inner, f.short), 'role': 'alignment check'})
        else:
            run.ok('R-ALIGN.pool', inst, f.loc, 'bad_alignment check dominates the allocation')
    for f in db.find(cls_t='composable_allocator_traits'):
        inner = cls_template(f.cls[f.cls.index('<') + 1:])
        if inner not in ('memory_pool', 'memory_pool_collection') or not f.short.startswith('try_allocate'):
            continue
        n += 1
        inst = '%s [%s]' % (f.display, db.config)
        S = [s for s in fwd.summarize(f, db=db, no_forward=True) if s.end == 'return']
        bad = [s for s in S if s.ret != 'null' and not any('$alignment' in c and not tk for c, tk in s.conds)]
        if bad:
            run.violation('R-ALIGN.pool', inst, f.loc, 'a path allocates without having compared the requested alignment', site={'function': 'composable_allocator_traits<%s>::%s' % (inner, f.short), 'role': 'alignment check'})
        else:
            run.ok('R-ALIGN.pool', inst, f.loc, 'null unless alignment <= supported')
    # the collection reserves and aligns with max_alignment
    for f in db.find(cls_t='memory_pool_collection'):
        if f.short not in ('try_reserve_memory', 'reserve_memory', 'insert_rest'):
            continue
        n += 1
        inst = '%s [%s]' % (f.display, db.config)
        calls = [t for e, t in flow.call_events(f) if t.get('short') in ('allocate', 'align_offset') and (t.get('short') == 'align_offset' or 'fixed_memory_stack' in t.get('cls', ''))]
        bad = [t for t in calls if sym.canon(t['args'][-1] if t.get('short') == 'align_offset' else t['args'][2]) != 'g:detail::max_alignment']
        if not calls:
            run.broke('%s has no stack allocation / alignment computation' % f.display)
        elif bad:
            run.violation('R-ALIGN.pool', inst, f.loc, '`%s` does not use max_alignment: nodes of some pool could be under-aligned' % tstr(bad[0])[:80],
                          site={'function': 'memory_pool_collection::' + f.short, 'role': 'max_alignment'})
        else:
            run.ok('R-ALIGN.pool', inst, f.loc, 'reserves / aligns with max_alignment')
    return n


def _call_args(cs, name):
    i = cs.rfind('.%s(' % name)
    if i < 0:
        return []
    body = cs[i + len(name) + 2:-1]
    out, depth, cur = [], 0, ''
    for ch in body:
        if ch in '([{':
            depth += 1
        elif ch in ')]}':
            depth -= 1
        if ch == ',' and depth == 0:
            out.append(cur)
            cur = ''
        else:
            cur += ch
    out.append(cur)
    return out


def check_insert_alignment(run, db):
    """memory given to a free list by the pools is aligned for max_alignment: it is the start of an arena block, the result of a
    stack allocation with max_alignment, or X + align_offset(X, max_alignment) for one and the same X - the cursor as it is when the
    memory is taken, with the helpers of the fixed stack inlined (an offset computed after the cursor moved is reported)"""
    n = 0
    for f in db.fns.values():
        if f.pattern or cls_template(f.cls) not in ('memory_pool', 'memory_pool_collection'):
            continue
        if not any(t.get('short') == 'insert' and 'free_memory_list' in t.get('cls', '') for e, t in flow.call_events(f)):
            continue
        try:
            # the fixed stack's allocate(end, size, alignment) stays a call (its alignment argument is what matters here); the
            # cursor accessors are inlined so that an address read before and after a bump can be told apart
            S = fwd.summarize(f, db=db, roles={}, no_forward=True,
                              inline_pred=lambda fn, callee, t: callee.short != 'allocate' and c01.inline_cursor(fn, callee, t))
        except sym.PathLimit as e:
            run.broke(str(e))
            continue
        n += 1
        probs, unrec, good = [], [], 0
        for s in S:
            for c in s.calls:
                if c[1].get('short') != 'insert' or 'free_memory_list' not in c[1].get('cls', ''):
                    continue
                sa = c.sub.get('args', []) if hasattr(c, 'sub') else []
                if not sa:
                    continue
                p0 = sym.canon(sa[0], {})        # the substituted argument itself (template arguments contain commas: no string splitting)
                m = re.match(r'^\((.+) \+ align_offset\((.+),g:detail::max_alignment\)\)$', p0) or re.match(r'^\(align_offset\((.+),g:detail::max_alignment\) \+ (.+)\)$', p0)
                if m:
                    x, y = m.group(1), m.group(2)
                    if x == y:
                        good += 1
                    else:
                        probs.append('inserts %s: the alignment offset is computed for a different address than the one it is added to (the cursor moved in between)' % p0[:150])
                elif p0.endswith('.memory') and ('allocate_block()' in p0 or 'reserve_memory(' in p0):
                    good += 1
                elif re.search(r'\.allocate\(.*g:detail::max_alignment', p0) or p0 == 'null':
                    good += 1
                elif 'align_offset' in p0:
                    probs.append('inserts %s, which is not <address> + align_offset(<address>, max_alignment)' % p0[:150])
                else:
                    unrec.append(p0[:120])
        inst = '%s [%s]' % (f.display, db.config)
        site = {'function': '%s::%s' % (cls_template(f.cls), f.short), 'role': 'memory given to the free list is max-aligned'}
        if probs:
            run.violation('R-ALIGN.insert', inst, f.loc, '; '.join(sorted(set(probs))[:2]), site=site)
        elif unrec:
            run.broke('%s gives %s to a free list: origin not recognised by R-ALIGN.insert' % (f.display, unrec[0]))
        elif good:
            run.ok('R-ALIGN.insert', inst, f.loc, '%d insertion(s): block start / max-aligned stack allocation / X + align_offset(X, max_alignment)' % good)
    return n


def _norm_bucket(c):
    c = re.sub(r'g:[\w:<>, ]*?::min_size_index', 'MIN', c)
    c = re.sub(r'detail::\w+_access_policy::', 'P::', c)
    return c


def check_buckets(run, db, rule='R-BUCKET'):
    """a request of size s is served by the free list created for size_from_index(index_from_size(s)): the list array creates list i
    with size_from_index(i + min), looks a size up at index_from_size(size) - min (clamped below at min), has
    index_from_size(max) - min + 1 lists and reports size_from_index(min + n - 1) as maximum; the log2 policy rounds the index UP
    (ilog2_ceil) and maps index i to 1 << i.  That ilog2_ceil is a ceiling is C19 (not decided)."""
    n = 0
    by_cls = {}
    for f in db.find(cls_t='detail::free_list_array'):
        by_cls.setdefault(f.cls, []).append(f)
    for cls, fns in sorted(by_cls.items()):
        probs = []
        anchor = fns[0]
        for f in fns:
            if f.kind == 'ctor' and len(f.params) == 3:
                anchor = f
                S = [s for s in fwd.summarize(f, db=db, roles={0: 'stack', 1: 'end', 2: 'max_node_size'}, no_forward=True) if s.end == 'return']
                ne = {_norm_bucket(w[1]) for s in S for w in s.writes if w[0] == 'this.no_elements_'}
                if not ne <= {'((P::index_from_size($max_node_size) - MIN) + 1)', '(1 + (P::index_from_size($max_node_size) - MIN))', '((1 + P::index_from_size($max_node_size)) - MIN)'} or not ne:
                    probs.append('the number of lists is %s, not index_from_size(max_node_size) - min + 1' % sorted(ne))
                cons = {_norm_bucket(c[0]) for s in S for c in s.calls if c[1].get('k') == 'construct' and 'free_memory_list' in str(c[1].get('type', ''))}
                if cons and not any(re.search(r'\{P::size_from_index\((\(0 \+ MIN\)|\(MIN \+ 0\)|\(MIN\)|MIN)\)\}$', c) for c in cons):
                    probs.append('list i is created with %s, not size_from_index(i + min)' % sorted(cons)[0][-80:])
            elif f.short == 'get':
                for s in fwd.summarize(f, db=db, roles={0: 'node_size'}, no_forward=True):
                    if s.end != 'return' or not s.ret:
                        continue
                    clamp = any(_norm_bucket(c) == '(P::index_from_size($node_size) < MIN)' and tk for c, tk in s.conds)
                    t = sym.strip_casts(s.ret_term)
                    idx = None
                    if isinstance(t, dict) and t.get('k') == 'bin' and t.get('op') == '[]' and sym.canon(t['l'], {0: 'node_size'}) == 'this.array_':
                        idx = {_norm_bucket(a): v for a, v in linear.lin(t['r'], {0: 'node_size'}).items()}
                    elif isinstance(t, dict) and t.get('k') == 'un' and t.get('op') == '*':
                        lv = {_norm_bucket(a): v for a, v in linear.lin(t['e'], {0: 'node_size'}).items()}
                        if lv.get('this.array_') == 1:
                            idx = {a: v for a, v in lv.items() if a != 'this.array_'}
                    want = {} if clamp else {'P::index_from_size($node_size)': 1, 'MIN': -1}
                    # the clamp written as std::max(index, min) - min is both cases in one expression
                    clamped = [{'max(P::index_from_size($node_size),MIN)': 1, 'MIN': -1}, {'max(MIN,P::index_from_size($node_size))': 1, 'MIN': -1}]
                    if idx != want and not (idx in clamped and not any('index_from_size' in _norm_bucket(c) for c, tk in s.conds)):
                        probs.append('get(size) returns %s, expected the list at index %s' % (_norm_bucket(s.ret)[:80], 'min - min' if clamp else 'index_from_size(size) - min'))
            elif f.short == 'max_node_size':
                for s in fwd.summarize(f, db=db, roles={}, no_forward=True):
                    if s.end == 'return' and s.ret:
                        r = _norm_bucket(s.ret)
                        if r not in ('P::size_from_index(((MIN + this.no_elements_) - 1))', 'P::size_from_index(((this.no_elements_ + MIN) - 1))', 'P::size_from_index((MIN + (this.no_elements_ - 1)))'):
                            probs.append('max_node_size() is %s, not size_from_index(min + number of lists - 1)' % r[:80])
        n += 1
        inst = '%s [%s]' % (strip_ns(cls), db.config)
        site = {'function': 'detail::free_list_array', 'role': 'size -> list mapping consistent'}
        if probs:
            run.violation(rule, inst, anchor.loc, '; '.join(sorted(set(probs))[:2]), site=site)
        else:
            run.ok(rule, inst, anchor.loc, 'lists created, looked up and counted with the same index arithmetic')
    want = {('detail::log2_access_policy', 'index_from_size'): ('ilog2_ceil($size)',), ('detail::log2_access_policy', 'size_from_index'): ('(1 << $index)',),
            ('detail::identity_access_policy', 'index_from_size'): ('$size',), ('detail::identity_access_policy', 'size_from_index'): ('$index',)}
    for (ct, short), acc in sorted(want.items()):
        for f in db.find(cls_t=ct, short=short):
            n += 1
            rets = sorted({str(s.ret) for s in fwd.summarize(f, db=db, roles={0: short.split('_')[-1]}, no_forward=True) if s.end == 'return'})
            inst = '%s [%s]' % (f.display, db.config)
            if len(rets) == 1 and rets[0] in acc:
                run.ok(rule, inst, f.loc, rets[0])
            else:
                run.violation(rule, inst, f.loc, '%s returns %s, expected %s: a size could be mapped to a list with smaller nodes' % (short, rets, acc[0]),
                              site={'function': '%s::%s' % (ct, short), 'role': 'index rounds up / size is the bucket maximum'})
    return n


def _run_key(t, lv):
    """a parameter or a data member the accumulator is fed from / compared with, as ('param', index) or ('term', canonical)"""
    t = sym.strip_casts(common.expand_locals(t, lv))
    if not isinstance(t, dict):
        return None
    if t.get('k') == 'param':
        return ('param', t['i'])
    if t.get('k') == 'member' and sym.strip_casts(t.get('base') or {}).get('k') == 'this':
        return ('term', sym.canon(t))
    return None


def _accumulator(f):
    """(did, acc key, init ok, (op, need key)) of the run accumulator of f - a local that is reset to a node size on a gap (`L = K`),
    grows by it on a contiguous node (`L += K`, same K), starts at K, and is compared with the requested bytes - or None"""
    lv = common.single_assignment_locals(f)
    acc = {}
    for e in f.events():
        if e['ev'] == 'assign' and sym.strip_casts(e['lhs']).get('k') == 'local':
            did = sym.strip_casts(e['lhs'])['did']
            k = _run_key(e['rhs'], lv)
            if k is not None:
                acc.setdefault(did, {}).setdefault(e['op'], set()).add(k)
        if e['ev'] == 'decl':
            for v in e['vars']:
                k = _run_key(v.get('init') or {}, lv) if isinstance(v.get('init'), dict) else None
                if k is not None:
                    acc.setdefault(v['did'], {}).setdefault('init', set()).add(k)
    cand = [(did, ops) for did, ops in acc.items() if '+=' in ops and '=' in ops and ops['+='] == ops['='] and len(ops['+=']) == 1]
    if len(cand) != 1:
        return None
    did, ops = cand[0]
    k_acc = list(ops['+='])[0]
    need = None
    for b in f.blocks.values():
        t = b.get('term')
        if t and isinstance(t.get('cond'), dict):
            c = sym.strip_casts(t['cond'])
            if c.get('k') == 'bin' and c['op'] in ('>=', '<=', '>', '<'):
                l, r = sym.strip_casts(c['l']), sym.strip_casts(c['r'])
                if l.get('did') == did and _run_key(r, lv) is not None:
                    need = (c['op'], _run_key(r, lv))
                elif r.get('did') == did and _run_key(l, lv) is not None:
                    need = ({'>=': '<=', '<=': '>=', '>': '<', '<': '>'}[c['op']], _run_key(l, lv))
    init_ok = ops.get('init') == {k_acc}
    if not init_ok:
        # by value: whatever way it got there (an assignment, a helper, a closure), the accumulator holds one node size when the
        # search loop is entered
        from engine import loops
        inc = [e for e in f.events() if e['ev'] == 'assign' and e['op'] == '+=' and sym.strip_casts(e['lhs']).get('did') == did]
        lps = [lp for lp in loops.find_loops(f) if inc and inc[0].block in lp.body]
        if lps:
            try:
                ent = loops.entry_state(f, lps[0], roles={})
            except sym.PathLimit:
                ent = []
            init_ok = bool(ent) and all(isinstance(vals.get(did), dict) and _run_key(vals[did], lv) == k_acc for vals, pre in ent)
    return did, k_acc, init_ok, need


def check_run(run, db):
    """the search for n contiguous bytes in the intrusive lists: found by what it does (an accumulator reset to the node size on a gap
    and grown by it on a contiguous node), in a search function of its own or inlined into allocate(n)"""
    n = 0
    for f in db.fns.values():
        if f.pattern:
            continue
        named = f.short in ('list_search_array', 'xor_list_search_array')
        in_list = cls_template(f.cls or '') in ('detail::free_memory_list', 'detail::ordered_free_memory_list') and f.short == 'allocate' and len(f.params) == 1
        if not named and not in_list:
            continue
        A = _accumulator(f)
        if A is None and not named:
            continue        # allocate(n) that calls a search function
        n += 1
        inst = '%s [%s]' % (f.display, db.config)
        site = {'function': f.short if named else 'list_search_array', 'role': 'run covers the requested bytes'}
        probs = []
        if A is None:
            probs.append('no accumulator that grows by the node size on the contiguous branch and is reset to it on a gap')
        else:
            did, k_acc, init_ok, need = A
            if not init_ok:
                probs.append('the accumulator does not start at one node')
            if need is None:
                probs.append('the accumulator is never compared with the requested byte count')
            elif need[0] != '>=':
                probs.append('the run is accepted on `accumulated %s needed`, not on >=' % need[0])
            elif need[1] == k_acc:
                probs.append('the accumulator is compared with the node size, not with the requested bytes')
            elif k_acc[0] == 'param' and need[1][0] == 'param':
                # callers: argument order (bytes, node_size_)
                for g in db.fns.values():
                    for e, t in flow.call_events(g):
                        if t.get('key') == f.key:
                            lv = common.single_assignment_locals(g)      # a hoisted `const auto node_size = node_size_;` is the field
                            a_need = sym.canon(common.expand_locals(t['args'][need[1][1]], lv), {0: 'n'})
                            a_acc = sym.canon(common.expand_locals(t['args'][k_acc[1]], lv), {0: 'n'})
                            if a_acc != 'this.node_size_' or a_need != '$n':
                                probs.append('%s calls the search with (bytes=%s, node size=%s)' % (strip_ns(g.name), a_need, a_acc))
            else:
                # the loop lives in allocate(n) itself: fed from the list's node size, compared with the requested bytes
                if k_acc != ('term', 'this.node_size_') or need[1] != ('param', 0):
                    probs.append('the search accumulates %s and compares with %s, not node_size_ and the requested bytes' % (k_acc[1], need[1][1]))
        if probs:
            run.violation('R-RUN', inst, f.loc, '; '.join(sorted(set(probs))), site=site)
        else:
            run.ok('R-RUN', inst, f.loc, 'accumulator += node size / reset on gap; returned when >= requested bytes; called with (n, node_size_)')
    return n


def check_aligned_allocator(run, db):
    n = 0
    by_cls = {}
    for f in db.find(cls_t='aligned_allocator'):
        by_cls.setdefault(f.cls, []).append(f)
    for cls, fns in sorted(by_cls.items()):
        by = fwdrules.find_pairs(fns)
        for short, f in sorted(by.items()):
            if short.startswith('max_'):
                continue
            n += 1
            fwdrules.fidelity(run, 'R-FWD', db, f, 'aligned_allocator')
        for a, b in fwdrules.PAIRS:
            if a in by and b in by:
                fwdrules.sibling_agreement(run, 'R-FWD', db, by[a], by[b], 'aligned_allocator')
    return n


def run(run):
    run.rule('R-BOUND.reseat', 'the stack cursor and the arena\'s current block (which supplies the block end) change together on every way out of a member function, exceptional ones included (shared rule of C06)', floor=4)
    run.rule('R-ALIGN.term', 'returned address = X + align_offset(X, alignment) for the bumped cursor', floor=6)
    run.rule('R-ALIGN.pool', 'pools reject larger alignments; collection uses max_alignment', floor=10)
    run.rule('R-ALIGN.insert', 'memory the pools give to a free list is aligned for max_alignment', floor=8)
    run.rule('R-BUCKET', 'a node size is mapped to a free list whose nodes are at least that large (index arithmetic of the list array, rounding of the log2 policy)', floor=8)
    run.rule('R-RUN', 'array search returns only runs covering the requested bytes', floor=2)
    run.rule('R-FWD', 'aligned_allocator never lowers the alignment', floor=8)
    run.rule('R-BOUND', 'size bytes behind the returned address lie inside the region (shared with C01)', floor=10)
    run.explanation = ('That align_offset / alignment_for compute what their names say is C19 (not applicable to this family); here the terms they are '
                       'applied to are decided. Non-null is C03; block-start alignment is the W-layout witness of C01.')
    from engine import witness
    run.rule('W-layout', 'arena and chunk headers are multiples of max_alignment: the first node behind a header is max-aligned (compile-time, shared with C01)', floor=1)
    cfgs = common.configs(run)
    witness.run_witness(run, 'W-layout', 'c01_layout.cpp', cfgs[:1] if run.tier == 'quick' else cfgs)
    for cfg in cfgs:
        db = common.load_or_skip(run, cfg, ('W-layout',))
        if db is None:
            return
        from rules import c06 as _c06
        _c06.check_reseat(run, db, rule='R-BOUND.reseat')
        if check_align_term(run, db) < 3:
            run.broke('bump allocation functions not found [%s]' % cfg)
        if check_pool_alignment(run, db) < 8:
            run.broke('pool traits not found [%s]' % cfg)
        if check_insert_alignment(run, db) < 4:
            run.broke('free list insertions of the pools not found [%s]' % cfg)
        if check_buckets(run, db) < 6:
            run.broke('free_list_array / access policies not found [%s]' % cfg)
        if check_run(run, db) < 2:
            run.broke('array search functions not found [%s]' % cfg)
        if c01.check_bound(run, db) < 8:
            run.broke('bump sites not found [%s]' % cfg)
        if check_aligned_allocator(run, db) < 8:
            run.broke('aligned_allocator members not instantiated [%s]' % cfg)
