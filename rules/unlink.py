"""R-UNLINK: free-list bookkeeping (shared by C01 and C04).

For free_memory_list, ordered_free_memory_list, small_free_memory_list:
  * allocate():   every path returning memory lowers capacity_ by exactly one and rewrites a link (the node leaves the list)
  * allocate(n):  every path returning memory rewrites links and lowers capacity_ by the node count of the found interval,
                  the interval whose first node is returned
  * deallocate(p): raises capacity_ by one and links the node
  * deallocate(p, n): returns ceil(n / node_size) nodes - the number allocate(n) took (search loop: bytes_so_far >= bytes_needed)
  * insert_impl:  capacity_ grows by the number of nodes it links
  * ordered list: whoever unlinks looks at both cached cursor fields afterwards
"""
import re

from engine import fwd, sym, flow, linear
from engine.facts import cls_template, strip_ns, top_term, subterms, tstr

LISTS = ('detail::free_memory_list', 'detail::ordered_free_memory_list', 'detail::small_free_memory_list')
LINK_CALLS = ('xor_list_set', 'xor_list_change', 'xor_list_insert', 'list_set_next', 'xor_link_block', 'insert_chunks')


def _inl(f, callee, t):
    from rules import common
    return callee.short not in LINK_CALLS and common.inline_local_pure(f, callee, t)


def _summ(db, f, roles=None):
    # parameters are named by position (roles), never by the identifier the source happens to use
    return fwd.summarize(f, db=db, inline_pred=_inl, extra_forward=lambda a, b: None, roles=roles or {})


def _links_rewritten(s):
    for c in s.calls:
        if c[1].get('k') == 'call' and c[1].get('short') in LINK_CALLS:
            return True
        if c[1].get('k') == 'call' and c[1].get('short') in ('allocate', 'deallocate') and 'chunk' in c[1].get('cls', ''):
            return True     # small list: the chunk's own index list is rewritten by chunk::allocate / deallocate
    for w in s.writes:
        if w[0] in ('this.first_',) or w[0].endswith('.next') or w[0].endswith('.prev') or w[0].endswith('.first_free'):
            return True     # (small list: the chunk's own index list rewritten in place)
    return False


def _cap_writes(s):
    return [w for w in s.writes if w[0] == 'this.capacity_']


def _cap_delta(s, roles=None):
    """change of capacity_ along the path as a linear form (None if capacity_ was not written): the spelling of the update
    (--x, x -= 1, x = x - 1) does not matter"""
    if 'this.capacity_' not in s.fields:
        return None
    return linear.sub(linear.lin(s.fields['this.capacity_'], roles or {}), {'this.capacity_': 1})


def check_unlink(run, db):
    n = 0
    for ct in LISTS:
        fns = db.find(cls_t=ct)
        by = {}
        for f in fns:
            by.setdefault((f.short, len(f.params)), f)
        site = lambda name: {'function': '%s::%s' % (ct, name), 'role': 'bookkeeping'}
        # ---- allocate()
        f = by.get(('allocate', 0))
        if f is not None:
            n += 1
            probs = []
            for s in _summ(db, f):
                if s.end != 'return' or s.ret in (None, 'null'):
                    continue
                cw = _cap_writes(s)
                if len(cw) != 1 or _cap_delta(s) != {'': -1}:
                    probs.append('capacity_ is not lowered by exactly one (change: %s)' % (linear.fmt(_cap_delta(s)) if _cap_delta(s) is not None else 'none'))
                if not _links_rewritten(s):
                    probs.append('the returned node is not unlinked')
            _emit(run, 'R-UNLINK', f, db, probs, site('allocate()'), 'one node unlinked, capacity_ - 1')
        # ---- allocate(n)
        f = by.get(('allocate', 1))
        if f is not None and ct != LISTS[2]:
            n += 1
            probs = []
            saw = 0
            for s in _summ(db, f):
                if s.end != 'return' or s.ret in (None, 'null'):
                    continue
                # the single-node branch forwards to allocate()
                if any(c[1].get('short') == 'allocate' and not c[1].get('args') for c in s.calls):
                    continue
                saw += 1
                cw = _cap_writes(s)
                if not _links_rewritten(s):
                    probs.append('the found interval is not unlinked')
                if len(cw) != 1:
                    probs.append('capacity_ written %d times on an array path' % len(cw))
                    continue
                # the amount must be the size (node count) of the interval whose first node is returned
                d = _cap_delta(s) or {}
                atoms = [a for a in d if a]
                m = re.match(r'^(.+)\.size\(this\.node_size_\)$', atoms[0]) if len(atoms) == 1 and d.get(atoms[0]) == -1 and not d.get('') else None
                if not m:
                    probs.append('capacity_ changes by [%s], not by minus the node count of the found interval' % linear.fmt(d)[:80])
                    continue
                itv = m.group(1)
                if not re.search(r'\w\(.*\)$', itv):
                    # the interval is not the result of a search call but a local assembled in this function (the search loop inlined
                    # by hand): the counted interval is that local, the returned node must be the value of its `first` on this path
                    szc = [c for c in s.calls if c[1].get('k') == 'call' and c[1].get('short') == 'size' and c[0] == atoms[0]]
                    rv = sym.strip_casts(szc[0][1].get('recv') or {}) if szc else {}
                    key = ('local:%s.first' % rv.get('name')) if rv.get('k') == 'local' else None
                    val = s.fields.get(key) if key else None
                    if val is None:
                        run.broke('%s counts the interval %s, which is neither the result of a search function nor a local of this function: the array branch is not decidable by R-UNLINK' % (f.display, itv[:40]))
                    elif s.ret is None or sym.canon(val, {}) not in s.ret:
                        probs.append('returns %s but counts the interval whose first node is %s' % (s.ret, sym.canon(val, {})[:60]))
                    continue
                if s.ret is None or not (itv + '.first') in s.ret:
                    probs.append('returns %s but counts the interval %s' % (s.ret, itv))
            if not saw:
                probs.append('no array path found')
            _emit(run, 'R-UNLINK', f, db, probs, site('allocate(n)'), 'interval unlinked, capacity_ - interval.size(node_size_)')
        # ---- deallocate(ptr)
        f = by.get(('deallocate', 1))
        if f is not None:
            n += 1
            probs = []
            for s in _summ(db, f):
                if s.end != 'return':
                    continue
                cw = _cap_writes(s)
                if len(cw) != 1 or _cap_delta(s) != {'': 1}:
                    probs.append('capacity_ is not raised by exactly one (change: %s)' % (linear.fmt(_cap_delta(s)) if _cap_delta(s) is not None else 'none'))
                if not _links_rewritten(s):
                    probs.append('the node is not linked')
            _emit(run, 'R-UNLINK', f, db, probs, site('deallocate(ptr)'), 'node linked, capacity_ + 1')
        # ---- insert_impl: capacity_ += number of nodes linked
        f = by.get(('insert_impl', 2))
        if f is not None:
            n += 1
            probs = []
            cap_deltas = []
            for s in _summ(db, f, {0: 'mem', 1: 'size'}):
                if s.end != 'return':
                    continue
                cw = _cap_writes(s)
                if len(cw) != 1:
                    probs.append('capacity_ written %d times' % len(cw))
                    continue
                d = _cap_delta(s, {0: 'mem', 1: 'size'})
                cap_deltas.append(d or {})
                if not _links_rewritten(s):
                    probs.append('no links written')
            # the linking loop / helper runs over the same count: a counted loop (engine/loops.py) that links once per cycle makes
            # size / node_size_ - 1 links (the last node is linked to the old list outside the loop), however it counts
            from engine import loops
            helper = [t for e, t in flow.call_events(f) if t.get('short') == 'xor_link_block']
            linkers = [e for e, t in flow.call_events(f) if t.get('short') in LINK_CALLS]
            lps = [lp for lp in loops.find_loops(f) if any(e.block in lp.body for e in linkers)]
            rl = {0: 'mem', 1: 'size'}
            if lps:
                lp = lps[0]
                c = loops.counted(lp)
                inl = [e for e in linkers if e.block in lp.body]
                if isinstance(c, str):
                    probs.append('the linking loop is not bounded by the node count size / node_size_ (%s)' % c)
                elif len(inl) != 1 or not loops.once_per_cycle(lp, inl[0].block):
                    probs.append('the linking loop does not link exactly one node per cycle')
                else:
                    for vals, pre in loops.entry_state(f, lp, db=db, roles=rl):
                        T, needs = loops.evaluations(c, linear.lin(loops.subst_vals(f, c.ctr_term, vals, rl), rl), linear.lin(loops.subst_vals(f, c.bound, vals, rl), rl))
                        ex = loops.executions(c, inl[0].block, T)
                        # the helper takes the bytes (count = size / node_size_) or the node count itself; either way it counts exactly
                        # the nodes it links: links between neighbours + the last node
                        linked = linear._add(ex, {'': 1}, 1)
                        if linked not in ({'($size / this.node_size_)': 1}, {'$size': 1}):
                            probs.append('the linking loop is not bounded by the node count size / node_size_: it links [%s] nodes to their successors, expected [node count - 1]' % linear.fmt(ex))
                        for d in cap_deltas:
                            if d != linked:
                                probs.append('capacity_ grows by [%s], the nodes linked are [%s]' % (linear.fmt(d), linear.fmt(linked)))
            elif not helper:
                probs.append('the linking loop is not bounded by the node count size / node_size_')
            else:
                for d in cap_deltas:
                    if d not in ({'($size / this.node_size_)': 1}, {'$size': 1}):
                        probs.append('capacity_ grows by [%s], the nodes linked are size / node_size_' % linear.fmt(d))
            _emit(run, 'R-UNLINK', f, db, probs, site('insert_impl'), 'links size/node_size_ nodes and counts them')
        # ---- deallocate(ptr, n): ceil(n / node_size) nodes go back
        f = by.get(('deallocate', 2))
        ins = by.get(('insert_impl', 2))
        if f is not None and ins is not None:
            n += 1
            probs = []
            found = False
            ceil_forms = fwd.ceil_div_forms('$n', 'this.node_size_')
            accepted = set(ceil_forms)
            for cf in ceil_forms:
                prod = sym.canon({'k': 'bin', 'op': '*', 'l': {'k': 'raw', 's': cf}, 'r': {'k': 'raw', 's': 'this.node_size_'}})
                accepted.add(sym.canon({'k': 'bin', 'op': '/', 'l': {'k': 'raw', 's': prod}, 'r': {'k': 'raw', 's': 'this.node_size_'}}))
            rl = {0: 'ptr', 1: 'n'}
            for s in fwd.summarize(f, db=db, roles=rl, extra_forward=lambda a, b: None,
                                   inline_pred=lambda a, c, t: c.short == 'insert_impl' and c.cls == a.cls or _inl(a, c, t)):
                if s.end != 'return':
                    continue
                if any(c[0].startswith('this.deallocate($ptr)') for c in s.calls):
                    continue        # single-node branch
                d = _cap_delta(s, rl)
                if d is None:
                    continue
                found = True
                atoms = [a for a in d if a]
                if len(atoms) == 1 and d == {atoms[0]: 1} and atoms[0] in accepted:
                    continue
                if d in ({'($n / this.node_size_)': 1},):
                    probs.append('allocate(n) takes ceil(n / node_size_) nodes (search stops at bytes_so_far >= n) but deallocate(ptr, n) passes n unrounded to '
                                 'insert_impl, which links floor(n / node_size_) nodes: a node is lost whenever node_size_ does not divide n')
                else:
                    probs.append('size given to insert_impl (%s) is not a recognised ceil(n / node_size_) * node_size_ form' % linear.fmt(d)[:120])
            if not found:
                probs.append('no path reaches insert_impl')
            _emit(run, 'R-UNLINK', f, db, probs, site('deallocate(ptr,n)'), 'returns ceil(n / node_size_) nodes, like allocate(n) took',
                  role='array release returns as many nodes as the acquire took')
        # ---- ordered list: both cursor fields considered after an unlink
        if ct == LISTS[1]:
            for key in (('allocate', 0), ('allocate', 1)):
                f = by.get(key)
                if f is None:
                    continue
                n += 1
                txt = ''
                for b in f.blocks.values():
                    if b.get('term') and isinstance(b['term'].get('cond'), dict):
                        txt += sym.canon(b['term']['cond']) + ' '
                probs = []
                for fld in ('this.last_dealloc_', 'this.last_dealloc_prev_'):
                    if not re.search(re.escape(fld) + r'(?!\w)', txt):
                        probs.append('%s is not compared with the removed node(s): the cached cursor may keep pointing at memory that was handed out' % fld[5:])
                _emit(run, 'R-UNLINK', f, db, probs, site('allocate cursor maintenance'), 'both cached cursors are re-examined after unlinking')
    return n


def check_cursor_reset(run, db, rule='R-UNLINK'):
    """constructors, move constructor and swap of the ordered list leave the cached deallocation cursor as an ADJACENT pair: (begin
    proxy, first node) read after the links are final, or (begin proxy, end proxy) only on a path that links the list empty; find_pos
    walks from this pair and takes a non-adjacent pair for a position"""
    n = 0
    for f in db.fns.values():
        if f.pattern:
            continue
        is_member = cls_template(f.cls) == LISTS[1] and f.kind in ('ctor', 'move-ctor')
        is_swap = f.short == 'swap' and len(f.params) == 2 and 'ordered_free_memory_list' in f.params[0]['t'] and not f.cls
        if not (is_member or is_swap):
            continue
        roles = {0: 'a', 1: 'b'} if is_swap else {0: 'other'}
        objs = ['$a', '$b'] if is_swap else ['this']
        probs = []
        any_write = False
        prims = ('xor_list_set', 'xor_list_change', 'xor_list_get_other', 'xor_list_insert', 'xor_list_iter_next', 'less', 'greater', 'less_equal', 'greater_equal')
        for s in fwd.summarize(f, db=db, roles=roles, no_forward=True,
                               inline_pred=lambda fn, callee, t: not callee.cls and callee.short not in prims and len(callee.blocks) <= 8 and 'free_list' in callee.loc):
            if s.end != 'return':
                continue
            for O in objs:
                pw = [w for w in s.writes if w[0] == O + '.last_dealloc_prev_']
                cw = [w for w in s.writes if w[0] == O + '.last_dealloc_']
                if not pw and not cw:
                    continue
                any_write = True
                if not pw or not cw:
                    probs.append('only one half of %s\'s cursor pair is set' % O)
                    continue
                pv, cv = pw[-1][1], cw[-1][1]
                links = [(i, c[0]) for i, c in enumerate(s.calls) if c[0].startswith('xor_list_set(%s.begin_node(),' % O)]
                last_link = links[-1] if links else None
                if pv != O + '.begin_node()':
                    probs.append('%s.last_dealloc_prev_ becomes %s' % (O, pv[:50]))
                elif cv == 'xor_list_get_other(%s.begin_node(),null)' % O:
                    if last_link is not None and cw[-1][4] <= last_link[0]:
                        probs.append('%s.last_dealloc_ is read from the begin proxy before the proxy is relinked' % O)
                elif cv == O + '.end_node()':
                    if last_link is None or last_link[1] != 'xor_list_set(%s.begin_node(),null,%s.end_node())' % (O, O):
                        probs.append('%s\'s cursor pair is set to (begin proxy, end proxy) on a path that takes over a non-empty list: the two are not neighbours, '
                                     'the next deallocation in the middle searches from a bogus position' % O)
                elif last_link is not None and last_link[1] == 'xor_list_set(%s.begin_node(),null,%s)' % (O, cv):
                    pass        # the very node the begin proxy was just linked to
                else:
                    probs.append('%s.last_dealloc_ becomes %s, which is not known to follow the begin proxy' % (O, cv[:50]))
        if not any_write:
            continue
        n += 1
        _emit(run, rule, f, db, probs, {'function': '%s::%s' % (LISTS[1], 'swap' if is_swap else f.kind), 'role': 'cursor pair adjacent'},
              'cursor pair = (begin proxy, first node) after relinking / (begin, end) on the empty list', role='cursor pair adjacent')
    return n


def _top_args(body):
    out, depth, cur = [], 0, ''
    for ch in body:
        if ch in '([{':
            depth += 1
        elif ch in ')]}':
            depth -= 1
        if ch == ',' and depth == 0:
            out.append(cur)
            cur = ''
        else:
            cur += ch
    out.append(cur)
    return out


def _emit(run, rule, f, db, probs, site, okmsg, role=None):
    inst = '%s [%s]' % (f.display, db.config)
    if role:
        site = dict(site, role=role)
    if probs:
        run.violation(rule, inst, f.loc, '; '.join(sorted(set(probs))[:2]), site=site)
    else:
        run.ok(rule, inst, f.loc, okmsg)
