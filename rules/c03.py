"""C03 - allocation failure is always signalled, never returned as null or absorbed.

R-NN       least fixpoint "never returns null" over all throwing pointer-returning allocation functions
R-THROW.1  every throw operand derives from std::bad_alloc (or is a rethrow inside a handler)
R-THROW.2  the constructors of the two exception families call the registered handler on every path; derived classes delegate
R-THROW.3  try_ members and composable traits members are noexcept
R-THROW.4  they contain no event that may throw (allow-list: mutex lock)
R-THROW.5  from a try_ root the call graph does not reach a block source or a throwing allocation function
R-THROW.6  listed entry points check the request before the first state change
"""
import re

from engine import build, fwd, sym, fixtures, flow, callgraph, witness
from engine.facts import cls_template, strip_ns, top_term, subterms, tstr, split_qual
from rules import common

LEVEL = 'other'
ALLOC_SHORTS = ('allocate_node', 'allocate_array', 'allocate', 'allocate_impl', 'do_allocate', 'heap_alloc', 'allocate_block', 'malloc')
PASS_THROUGH = {'debug_fill_new': 0, 'debug_fill': 0}      # functions that return (an offset of) their i-th argument
# axioms about code that is not analysed (reason)
AXIOM_NONNULL = {
    'operator new': 'throwing operator new never returns null',
}


def is_user_type(cls):
    return cls.startswith(('verif_drv::', 'std::pmr::', 'std::allocator', 'std::__new_allocator', '__gnu_cxx::new_allocator'))


API_SHORTS = ('allocate_node', 'allocate_array', 'allocate_impl', 'do_allocate', 'allocate_block')
API_ALLOCATE_CLASSES = ('memory_stack', 'iteration_allocator', 'temporary_allocator', 'std_allocator')
# "container is not empty" axioms: (class template, accessor) is non-null when one of these calls on the same
# receiver (or with the receiver as argument) precedes it on the path, or the emptiness test failed
NONEMPTY_AFTER = {
    ('detail::memory_block_stack', 'top'): ('push', 'steal_top', 'take_from_cache'),
}
# frozen exceptions (reason): obligations the analysis cannot discharge and that hold for a stated reason
NN_EXCEPTIONS = {
    'static_block_allocator::allocate_block': 'cur_ is null only in the moved-from state; using a moved-from block allocator is outside the contract (C12 covers destruction/assignment only)',
    'virtual_block_allocator::allocate_block': 'virtual_memory_commit returns its argument cur_, tested non-null right after; cur_ is null only when moved-from',
}


def in_library(f):
    return f.name.startswith('foonathan::memory') and not f.pattern


def candidates(db):
    out = []
    for f in db.fns.values():
        if not in_library(f):
            continue
        ret = f.rec.get('ret', '')
        if ret.endswith('*') or ret.endswith('memory_block'):
            out.append(f)
    return out


def is_api(f):
    if f.short.startswith('try_'):
        return False
    ret = f.rec.get('ret', '')
    if not (ret.endswith('*') or ret.endswith('memory_block')):
        return False
    if '::detail::' in f.cls + '::' and cls_template(f.cls).startswith('detail::') and cls_template(f.cls) not in ('detail::lowlevel_allocator',
                                                                                                             'detail::deeply_tracked_block_allocator'):
        return False
    if not f.cls and '::detail::' in f.name:
        return False
    if '::traits_detail::' in f.name:
        return False
    if f.short in API_SHORTS:
        return True
    if f.short == 'allocate' and cls_template(f.cls) in API_ALLOCATE_CLASSES:
        return True
    return False


def _identity(t, nn=None, f=None):
    """identity of a value: the call instance (or parameter / field) it comes from, through casts and pointer arithmetic"""
    t = sym.strip_casts(t)
    if not isinstance(t, dict):
        return None
    k = t.get('k')
    if k == 'bin' and t['op'] in ('+', '-') and (t.get('lptr') or t.get('rptr')):
        return _identity(t['l'] if t.get('lptr') else t['r'], nn, f)
    if k == 'call':
        if t.get('short') in PASS_THROUGH and t.get('args'):
            return _identity(t['args'][PASS_THROUGH[t['short']]], nn, f)
        if nn is not None and t.get('key') in nn.retfield and 'recv' in t:
            return ('field', '%s.%s' % (sym.canon(t['recv']), nn.retfield[t['key']]))
        return ('call', t.get('id'), t.get('loc'))
    if k in ('new', 'construct'):
        return ('call', t.get('id'), t.get('loc'))
    if k == 'fwdres':
        return ('fwd', t['n'])
    if k == 'param':
        return ('param', t['i'])
    if k == 'member':
        return ('field', sym.canon(t))
    if k == 'local':
        return ('local', t.get('did'))
    if k == 'cond':
        return ('cond', sym.canon(t['c']), _identity(t['t'], nn, f), _identity(t['f'], nn, f))
    return None


def _as_null_test(ct):
    """(polarity, tested term): polarity True when the condition being true means non-null"""
    ct = sym.strip_casts(ct)
    if not isinstance(ct, dict):
        return True, None
    if ct.get('k') == 'un' and ct['op'] == '!':
        pos, inner = _as_null_test(ct['e'])
        return (not pos), inner
    if ct.get('k') == 'bin' and ct['op'] in ('==', '!='):
        for a, b in ((ct['l'], ct['r']), (ct['r'], ct['l'])):
            bb = sym.strip_casts(b)
            if isinstance(bb, dict) and bb.get('k') == 'lit' and (bb.get('null') or bb.get('v') == 0):
                return (ct['op'] == '!='), sym.strip_casts(a)
        return True, None
    return True, ct


class NN:
    def __init__(self, db, fns):
        self.db = db
        self.fns = {f.key: f for f in fns}
        self.proven = set()
        self.why = {}
        self.summ = {}
        self.retfield = {}
        self._compute_retfields()

    def summaries(self, f):
        if f.key not in self.summ:
            try:
                self.summ[f.key] = [s for s in fwd.summarize(f, db=self.db, inline_pred=self._inline, extra_forward=lambda a, b: None) if s.end == 'return']
            except sym.PathLimit:
                self.summ[f.key] = None
        return self.summ[f.key]

    def _inline(self, f, callee, t):
        # small private helpers of the same class (bump, bump_return, allocate_block of a pool ...)
        if callee.cls != f.cls or not f.cls or len(callee.blocks) > 10:
            return False
        if is_api(callee):
            return False
        return True

    def _compute_retfields(self):
        """functions all of whose return values are (an offset of) one field of *this"""
        for k, f in self.fns.items():
            if not f.cls:
                continue
            S = self.summaries(f)
            if not S:
                continue
            fields = set()
            for s in S:
                idt = _identity(s.ret_term) if s.ret_term is not None else None
                if idt and idt[0] == 'field' and idt[1].startswith('this.') and '(' not in idt[1]:
                    fields.add(idt[1][5:])
                else:
                    fields.add(None)
            if len(fields) == 1 and None not in fields:
                self.retfield[k] = fields.pop()

    def tested(self, f, s, t):
        me = _identity(t, self, f)
        if me is None:
            return False
        for ct, tk in s.cond_terms:
            pos, inner = _as_null_test(ct)
            if inner is None:
                continue
            if _identity(inner, self, f) == me and (tk == pos):
                return True
        return False

    def term_nonnull(self, f, s, t, depth=0):
        """(True, reason) if term t is provably non-null on path s"""
        t = sym.strip_casts(t)
        if not isinstance(t, dict) or depth > 10:
            return False, 'unknown'
        k = t.get('k')
        if self.tested(f, s, t):
            return True, 'tested non-null on this path'
        if k == 'fwdres':
            fc = s.fwd[t['n']]
            return self.call_nonnull(f, s, fc.term, depth)
        if k == 'call':
            return self.call_nonnull(f, s, t, depth)
        if k == 'bin' and t['op'] in ('+', '-') and (t.get('lptr') or t.get('rptr')):
            side = t['l'] if t.get('lptr') else t['r']
            return self.term_nonnull(f, s, side, depth + 1)
        if k == 'member' and t['name'] == 'memory':
            return self.term_nonnull(f, s, t.get('base'), depth + 1)
        if k == 'new':
            if t.get('placement'):
                return self.term_nonnull(f, s, t['placement'][0], depth + 1)
            return True, AXIOM_NONNULL['operator new']
        if k == 'construct' and cls_template(t.get('type', '')) in ('memory_block', 'detail::fixed_memory_stack') and t.get('args'):
            return self.term_nonnull(f, s, t['args'][0], depth + 1)
        if k == 'initlist' and t.get('elts'):
            return self.term_nonnull(f, s, t['elts'][0], depth + 1)
        if k == 'un' and t['op'] == '&':
            return True, 'address of an object'
        if k == 'cond':
            a, ra = self.term_nonnull(f, s, t['t'], depth + 1)
            b, rb = self.term_nonnull(f, s, t['f'], depth + 1)
            return (a and b), 'both arms' if a and b else ('arm may be null: %s' % (ra if not a else rb))
        if k == 'lit' and t.get('null'):
            return False, 'literal nullptr'
        return False, 'value `%s` is not known to be non-null' % sym.canon(t, fwd.fn_roles(f))[:80]

    def call_nonnull(self, f, s, t, depth):
        short = t.get('short')
        key = t.get('key')
        roles = fwd.fn_roles(f)
        if short in PASS_THROUGH and t.get('args'):
            return self.term_nonnull(f, s, t['args'][PASS_THROUGH[short]], depth + 1)
        if key in self.proven:
            return True, 'callee %s never returns null' % strip_ns(t.get('callee', short))
        if t.get('cls') and is_user_type(t['cls']) and short in ('allocate_node', 'allocate_array', 'allocate', 'allocate_block'):
            return True, 'RawAllocator/BlockAllocator/memory_resource concept: throwing allocation functions do not return null'
        if short == 'operator new' or (t.get('callee', '').startswith('operator new')):
            if any('nothrow' in sym.canon(a) for a in t.get('args', [])):
                return False, 'operator new(nothrow) may return null'
            return True, AXIOM_NONNULL['operator new']
        ct = cls_template(t.get('cls', '')) if t.get('cls') else ''
        recv = sym.canon(t.get('recv'), roles) if 'recv' in t else None
        # FreeList::allocate() without argument: non-null when the list is not empty
        if short == 'allocate' and not t.get('args') and 'free_memory_list' in t.get('cls', ''):
            if ('%s.empty()' % recv, False) in s.conds or ('(0 == %s.capacity())' % recv, False) in s.conds \
                    or ('%s.capacity()' % recv, True) in s.conds or ('(0 != %s.capacity())' % recv, True) in s.conds:
                return True, 'list tested non-empty on this path'
            for c in s.calls:
                if c[0].startswith('%s.insert(' % recv):
                    return True, 'memory was inserted into the list on this path'
            return False, 'FreeList::allocate() on a list that is not known to be non-empty'
        if (ct, short) in NONEMPTY_AFTER:
            for c in s.calls:
                for nm in NONEMPTY_AFTER[(ct, short)]:
                    if c[0].startswith('%s.%s(' % (recv, nm)) or ('%s(%s)' % (nm, recv)) in c[0]:
                        return True, '%s is non-empty after %s on this path' % (recv, nm)
            for cc, tk in s.conds:
                if ('take_from_cache(%s)' % recv) in cc and tk:
                    return True, '%s received a cached block on this path' % recv
            if ('%s.empty()' % recv, False) in s.conds:
                return True, 'tested non-empty'
            return False, '%s.%s() on a container that is not known to be non-empty' % (recv, short)
        # callee returns one of its receiver's fields: non-null iff that field is (tested through any accessor of it, or
        # the receiver was just constructed from a non-null pointer)
        if key in self.retfield and 'recv' in t:
            r = sym.strip_casts(t['recv'])
            if isinstance(r, dict) and r.get('k') == 'construct' and r.get('args'):
                return self.term_nonnull(f, s, r['args'][0], depth + 1)
            return False, 'field %s.%s is not tested on this path' % (recv, self.retfield[key])
        if t.get('virtual') and key not in self.db.fns:
            # pure virtual of the type-erased interface: all overriders in the analysed program
            over = [g for g in self.fns.values() if g.short == short and g.rec.get('virtual')]
            if over and all(g.key in self.proven for g in over):
                return True, 'all %d overriders of %s never return null' % (len(over), short)
            if over:
                return False, 'an overrider of %s may return null' % short
        if key in self.fns:
            return False, 'callee %s may return null' % strip_ns(t.get('callee', short))[:120]
        return False, 'result of `%s` (not analysed) is returned without a null test' % tstr(t)[:70]

    def check(self, f):
        S = self.summaries(f)
        if S is None:
            return False, ['too many paths']
        if not S:
            return True, ['never returns normally']
        bad = []
        for s in S:
            if s.ret_term is None:
                bad.append('returns without a value')
                continue
            okk, why = self.term_nonnull(f, s, s.ret_term)
            if not okk:
                bad.append('%s (path: %s)' % (why, ' & '.join(s.cond_key())[:160] or 'unconditional'))
        return (not bad), bad

    def run(self):
        changed = True
        while changed:
            changed = False
            for k, f in self.fns.items():
                if k in self.proven:
                    continue
                okk, why = self.check(f)
                if okk:
                    self.proven.add(k)
                    changed = True
                else:
                    self.why[k] = why


def site_name(f):
    q = split_qual(strip_ns(f.name))
    return '::'.join(cls_template(x) if i < len(q) - 1 else x.split('<')[0] for i, x in enumerate(q))


def check_nn(run, db):
    cands = candidates(db)
    nn = NN(db, cands)
    nn.run()
    n = 0
    for f in cands:
        if not is_api(f):
            continue
        inst = '%s [%s]' % (f.display, db.config)
        n += 1
        sn = site_name(f)
        if f.key in nn.proven:
            run.ok('R-NN', inst, f.loc, 'every returned value is non-null')
        elif sn in NN_EXCEPTIONS:
            run.ok('R-NN', inst, f.loc, 'listed exception: ' + NN_EXCEPTIONS[sn])
        else:
            run.violation('R-NN', inst, f.loc, '; '.join(sorted(set(nn.why.get(f.key, ['?'])))[:2]),
                          site={'function': sn, 'role': 'may return null'})
    run.count('nn_candidates', len(cands))
    run.count('nn_proven', len(nn.proven))
    return n


def check_throw_types(run, db):
    n = 0
    for f in db.fns.values():
        if f.pattern or f.name.startswith('verif_'):
            continue
        for e in f.events():
            t = top_term(e)
            if t is None or t.get('k') != 'throw':
                continue
            n += 1
            inst = '%s throws %s [%s]' % (f.display, strip_ns(t.get('type', 'rethrow')), db.config)
            if t.get('rethrow'):
                if e.get('in_handler'):
                    run.ok('R-THROW.1', inst, t.get('loc', f.loc), 'rethrow inside a handler')
                else:
                    run.violation('R-THROW.1', inst, t.get('loc', f.loc), '`throw;` outside a catch handler',
                                  site={'function': strip_ns(f.name).split('<')[0], 'role': 'rethrow'})
            elif t.get('bad_alloc'):
                run.ok('R-THROW.1', inst, t.get('loc', f.loc), 'derives from std::bad_alloc')
            else:
                run.violation('R-THROW.1', inst, t.get('loc', f.loc), 'thrown type %s does not derive from std::bad_alloc' % strip_ns(t.get('type', '?')),
                              site={'function': strip_ns(f.name).split('<')[0], 'role': 'throw type'})
    return n


def check_handlers(run, db):
    n = 0
    roots = {'out_of_memory': 'out_of_memory_h', 'bad_allocation_size': 'bad_alloc_size_h'}
    derived = {'out_of_fixed_memory': 'out_of_memory', 'bad_node_size': 'bad_allocation_size', 'bad_array_size': 'bad_allocation_size',
               'bad_alignment': 'bad_allocation_size'}
    for cname, hvar in roots.items():
        ctors = [f for f in db.find(cls_t=cname, kind='ctor')]
        for f in ctors:
            n += 1

            vals = common.single_assignment_locals(f)

            def calls_handler(e, vals=vals, hvar=hvar):
                t = top_term(e)
                # the handler may be loaded into a local first: `auto h = handler.load(); h(info, amount);`
                return t is not None and t.get('k') == 'call' and t.get('indirect') and hvar in tstr(common.expand_locals(t.get('fn'), vals))
            inst = '%s [%s]' % (f.display, db.config)
            if flow.must_pass_through(f, calls_handler):
                run.ok('R-THROW.2', inst, f.loc, 'constructor calls the registered handler on every path')
            else:
                run.violation('R-THROW.2', inst, f.loc, 'constructor does not call the registered handler (%s) on every path' % hvar,
                              site={'function': cname + '::<ctor>', 'role': 'handler called'})
    for cname, base in derived.items():
        for f in db.find(cls_t=cname, kind='ctor'):
            n += 1
            inst = '%s [%s]' % (f.display, db.config)
            okk = any(e['ev'] == 'init' and e.get('base') and cls_template(e['base']) == base and not e.get('implicit')
                      and len((e['e'] or {}).get('args', [])) >= 2 for e in f.events())
            if okk:
                run.ok('R-THROW.2', inst, f.loc, 'delegates to %s' % base)
            else:
                run.violation('R-THROW.2', inst, f.loc, 'does not construct its %s base with the failure data' % base,
                              site={'function': cname + '::<ctor>', 'role': 'delegates to family root'})
    return n


def effectively_nothrow(db, key, memo, depth=0):
    """a function not declared noexcept whose body (recursively) contains no event that may throw"""
    if key in memo:
        return memo[key]
    g = db.fns.get(key)
    if g is None or depth > 6:
        return False
    memo[key] = True    # optimistic for recursion
    res = True
    for e in g.events():
        t = top_term(e)
        if t is None or t.get('k') not in ('call', 'construct', 'new', 'throw'):
            continue
        if sym.may_throw(t):
            if t.get('k') in ('call', 'construct') and t.get('key') and effectively_nothrow(db, t['key'], memo, depth + 1):
                continue
            res = False
            break
    memo[key] = res
    return res


MAY_THROW_ALLOW = {'lock': 'std::mutex::lock may throw std::system_error; unrelated to allocation failure and terminates under noexcept',
                   'lock_guard': 'see lock', 'unique_lock': 'see lock'}


_ENT = {}


COMPOSABLE_PREFIXES = ('try_allocate', 'try_deallocate', 'try_reserve')


def try_functions(db):
    """the composable (non-throwing, non-growing) allocation interface; other functions that merely start with try_ (a mutex
    wrapper's try_lock, ...) are not part of it"""
    out = []
    for f in db.fns.values():
        if f.pattern or f.name.startswith('verif_'):
            continue
        if not f.short.startswith(COMPOSABLE_PREFIXES):
            continue
        if f.cls.startswith('foonathan::memory'):
            out.append(f)
        elif '::detail::' in f.name and not f.cls:
            out.append(f)
    return out


GROWERS = ('allocate_node', 'allocate_array', 'allocate', 'allocate_block', 'allocate_impl', 'reserve_memory')


def check_failed_growth(run, db, only=None):
    """a request that fails because the upstream request fails leaves the allocator as it was: in the throwing allocation functions no
    data member is written before a call to an allocation function that can throw, on the path where that call throws"""
    n = 0
    seen = set()
    for f in db.fns.values():
        if f.pattern or not f.name.startswith('foonathan::memory') or f.noexcept == 'yes' or f.short not in GROWERS or not f.cls:
            continue
        if only is not None and cls_template(f.cls) not in only:
            continue
        try:
            S = fwd.summarize(f, db=db, exceptional=True, roles={}, no_forward=True)
        except sym.PathLimit as e:
            run.broke(str(e))
            continue
        n += 1
        bad = set()
        for s in S:
            if s.end != 'propagate' or not s.throws:
                continue
            tt = s.throws[2] if len(s.throws) > 2 and isinstance(s.throws[2], dict) else {}
            exhausted = tt.get('k') == 'throw' and 'out_of' in str(tt.get('type', ''))
            if not str(tt.get('short', '')).startswith('allocate') and not exhausted:
                continue            # the library's own size checks (bad_allocation_size family) may follow a growth, the new block is then kept;
                                    # the subject here is exhaustion: an upstream request that throws, or the library's own out_of_memory
            tc = s.throw_at_call if s.throw_at_call is not None else 10 ** 9
            for w in s.writes:
                lhs = sym.strip_casts(w[2].get('lhs') or {}) if w[2].get('ev') in ('assign', 'incdec') else {}
                if lhs.get('k') == 'member' and w[0].startswith('this.') and w[4] <= tc:
                    bad.add(w[0])
        inst = '%s [%s]' % (f.display, db.config)
        if bad:
            run.violation('R-THROW.7', inst, f.loc, '%s written before the request for memory failed (upstream allocation call that throws, or the allocator\'s own out-of-memory throw): '
                          'a failed request changes the allocator (later requests are sized / placed differently)' % ', '.join(sorted(bad)),
                          site={'function': '%s::%s' % (cls_template(f.cls), f.short), 'role': 'no write before a failing upstream request'})
        else:
            run.ok('R-THROW.7', inst, f.loc, 'no data member written before an upstream request that throws')
    return n


def check_try(run, db):
    n = 0
    tf = try_functions(db)
    for f in tf:
        n += 1
        inst = '%s [%s]' % (f.display, db.config)
        site_fn = '%s::%s' % (cls_template(f.cls) if f.cls else 'detail', f.short)
        if f.noexcept != 'yes':
            run.violation('R-THROW.3', inst, f.loc, 'try_ function is not declared noexcept', site={'function': site_fn, 'role': 'noexcept'})
        else:
            run.ok('R-THROW.3', inst, f.loc, 'noexcept')
        bad = []
        for e in f.events():
            t = top_term(e)
            if t is None or t.get('k') not in ('call', 'construct', 'new', 'throw'):
                continue
            if sym.may_throw(t):
                nm = t.get('short') or cls_template(t.get('type', '')).split('::')[-1]
                if nm in MAY_THROW_ALLOW or 'std::lock_guard' in t.get('type', '') or 'std::unique_lock' in t.get('type', ''):
                    continue
                if t.get('key') and effectively_nothrow(db, t['key'], _ENT):
                    continue
                bad.append(tstr(t)[:90])
        if bad:
            run.violation('R-THROW.4', inst, f.loc, 'contains an event that may throw: `%s`' % bad[0], site={'function': site_fn, 'role': 'may-throw event'})
        else:
            run.ok('R-THROW.4', inst, f.loc, 'no may-throw event')
    # reachability of growth / throwing allocation
    forbidden = {}
    for g in db.fns.values():
        if g.pattern:
            continue
        if g.short == 'allocate_block' or (g.short in ('allocate_node', 'allocate_array', 'allocate') and g.noexcept != 'yes'
                                           and g.cls.startswith('foonathan::memory') and not g.short.startswith('try_')):
            forbidden[g.key] = g
    for f in tf:
        reach, ext = callgraph.reachable_fns(db, [f])
        hit = [g for k, g in reach.items() if k in forbidden and k != f.key]
        exthit = [k for k in ext if re.search(r'::allocate_block\(', k)]
        inst = '%s [%s]' % (f.display, db.config)
        site_fn = '%s::%s' % (cls_template(f.cls) if f.cls else 'detail', f.short)
        if hit or exthit:
            names = [strip_ns(g.name) for g in hit] + exthit
            run.violation('R-THROW.5', inst, f.loc, 'reaches %s: a try_ function must neither grow the allocator nor call a throwing allocation function' % names[0][:120],
                          site={'function': site_fn, 'role': 'reaches growth'})
        else:
            run.ok('R-THROW.5', inst, f.loc, '%d reachable functions, none grows or throws' % len(reach))
    return n


CHECK_FIRST = [
    # (class template, member, expected check kinds) - from the property's anchors
    ('allocator_traits<memory_pool>', 'allocate_node'), ('allocator_traits<memory_pool>', 'allocate_array'),
    ('memory_pool_collection', 'allocate_node'), ('memory_pool_collection', 'allocate_array'),
    ('allocator_traits<memory_pool_collection>', 'allocate_node'), ('allocator_traits<memory_pool_collection>', 'allocate_array'),
]


def check_checks_first(run, db):
    """check_allocation_size dominates the first state-changing event (non-const member call on the allocator)"""
    n = 0
    if not build.CONFIGS[db.config]['FOONATHAN_MEMORY_CHECK_ALLOCATION_SIZE']:
        return 99       # the checks are compiled out in this configuration: nothing to decide
    for ct, short in CHECK_FIRST:
        outer = ct.split('<')[0]
        inner = ct[ct.index('<') + 1:-1] if '<' in ct else None
        for f in db.find(cls_t=outer, short=short):
            if inner and cls_template(f.cls[f.cls.index('<') + 1:]) != inner:
                continue
            n += 1
            checks = []
            first_change = None
            evs = list(f.events())
            for e in evs:
                t = top_term(e)
                if t is None or t.get('k') != 'call':
                    continue
                if t.get('short') == 'check_allocation_size':
                    checks.append(e)
                elif 'recv' in t and not t.get('constm') and t.get('short') not in ('info', 'get') and first_change is None \
                        and sym.canon(t['recv'], {0: 'state'}).split('.')[0] in ('$state', 'this'):
                    first_change = e
            inst = '%s [%s]' % (f.display, db.config)
            site = {'function': '%s::%s' % (ct, short), 'role': 'check before state change'}
            if not checks:
                run.violation('R-THROW.6', inst, f.loc, 'no check_allocation_size call', site=site)
            elif first_change is not None and not all(f.ev_dominates(c, first_change) or c.block != first_change.block and
                                                     not f.ev_dominates(first_change, c) for c in checks[:1]):
                run.violation('R-THROW.6', inst, f.loc, 'state is changed by `%s` before the request was checked' % tstr(top_term(first_change))[:80], site=site)
            elif first_change is not None and not f.ev_dominates(checks[0], first_change):
                run.violation('R-THROW.6', inst, f.loc, 'the first size check does not dominate `%s`' % tstr(top_term(first_change))[:80], site=site)
            else:
                run.ok('R-THROW.6', inst, f.loc, '%d check(s) before the first state change' % len(checks))
    return n


def run(run):
    run.rule('R-NN', 'throwing allocation functions never return null (least fixpoint over callees; tested, thrown, or derived from a non-null callee)', floor=60)
    run.rule('R-THROW.1', 'every throw operand derives from std::bad_alloc', floor=15)
    run.rule('R-THROW.2', 'exception family constructors call the registered handler; derived classes delegate', floor=6)
    run.rule('R-THROW.3', 'try_ functions are noexcept', floor=60)
    run.rule('R-THROW.4', 'try_ functions contain no may-throw event', floor=60)
    run.rule('R-THROW.5', 'try_ functions do not reach a block source or a throwing allocation function', floor=60)
    run.rule('R-THROW.7', 'a failing upstream request leaves the data members of the requesting allocator unwritten', floor=40)
    run.rule('R-THROW.6', 'size checks dominate the first state change in the listed entry points', floor=10)
    run.rule('R-THROW.bound', 'the bump allocators refuse exactly the requests that do not fit (shared rule R-BOUND of C01)', floor=10)
    run.explanation = ('Never-null is a least fixpoint over the extracted call graph with path-sensitive null tests; the try_ half is '
                       'noexcept + no may-throw event + call-graph unreachability of block sources; exception types and handler calls are structural.')
    run.assumptions += ['user RawAllocators / BlockAllocators / memory_resources honour their concept (throwing functions do not return null)',
                        'FOONATHAN_MEMORY_ASSERT is not accepted as a null test (it vanishes in release builds)',
                        'the numeric limits compared against are the subject of C18/C19, not of this check']
    for cfg in common.configs(run):
        db = build.load_db(cfg, log=run.log)
        run.count('functions_analysed', len(db.fns))
        if check_nn(run, db) < 40:
            run.broke('few allocation entry points found [%s]' % cfg)
        nthrow = check_throw_types(run, db)
        run.count('throw_sites', nthrow)
        if nthrow < 15:
            run.broke('only %d throw sites found [%s]' % (nthrow, cfg))
        if check_handlers(run, db) < 6:
            run.broke('exception constructors not found [%s]' % cfg)
        if check_try(run, db) < 40:
            run.broke('try_ functions not found [%s]' % cfg)
        if check_failed_growth(run, db) < 30:
            run.broke('throwing allocation functions not found for R-THROW.7 [%s]' % cfg)
        # a request that cannot be served must be refused: the refusal condition of the bump allocators is exact (the advance of
        # the cursor is what was compared with the region end, without unsigned wrap-around) - shared rule R-BOUND of C01
        from rules import c01, c05
        if c01.check_bound(c05._Renamed(run, 'R-THROW.bound'), db) < 2:
            run.broke('bump allocation sites not found [%s]' % cfg)
        if check_checks_first(run, db) < 8:
            run.broke('listed entry points for R-THROW.6 not found [%s]' % cfg)
    fixtures.expect_fire(run, 'c03_bad.cpp', _fixture, 'R-NN')


def _fixture(db):
    eps = [f for f in db.fns.values() if f.name.startswith('verif_fix::') and f.rec.get('ret', '').endswith('*')]
    nn = NN(db, eps)
    nn.run()
    return {f.short for f in eps if f.key not in nn.proven}
