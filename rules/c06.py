"""C06 - unwinding a memory stack restores exactly the state at the marker (structural clauses).

R-TERM.index   the number of blocks unwind() returns to the arena (loop trip count summarised) is `current index - m.index`,
               with the current index the very term top() stores in markers
R-UNWIND.top   both branches of unwind leave stack_ at m.top; the checks on index / end / top precede the state change
R-UNWIND.cache the stack's arena is the caching kind, so unwound blocks are kept and come back top-first (R-ARENA of C05)
R-MARKER       operator< is lexicographic on (index, top), operator== compares both, the other four are defined through them
R-RAII         memory_stack_raii_unwind unwinds in destructor / move assignment iff it still holds a stack; release() disarms
"""
import re

from engine import build, fwd, sym, flow
from engine.facts import cls_template, strip_ns, top_term, subterms, tstr
from rules import common

LEVEL = 'other'


def loop_trip_count(f, call_short, recv_canon, db=None, roles=None):
    """number of calls `recv.call_short()` made by the cross-block branch as a linear form over the values at loop entry:
    calls before the loop + executions of the call inside a counted loop (engine/loops.py: for / while / do-while, counting up or
    down).  returns (linear form, description), ('VARIANT', why), ('WRAP', why) or (None, why)"""
    from engine import loops, linear
    roles = roles if roles is not None else {0: 'm'}
    calls = [(e, t) for e, t in flow.call_events(f) if t.get('short') == call_short and sym.canon(t.get('recv') or {}) == recv_canon]
    if not calls:
        return None, 'no %s.%s() call' % (recv_canon, call_short)
    lps = [lp for lp in loops.find_loops(f) if any(e.block in lp.body or e.block == lp.head for e, t in calls)]
    if len(lps) != 1:
        return None, 'expected the calls in exactly one loop, found %d' % len(lps)
    lp = lps[0]
    in_body = [e for e, t in calls if e.block in lp.body or e.block == lp.head]
    before = [e for e, t in calls if e.block not in lp.body and e.block != lp.head and lp.head in _reach(f, e.block)]
    if len(in_body) != 1 or not loops.once_per_cycle(lp, in_body[0].block):
        return None, 'the loop does not make exactly one call per cycle'
    c = loops.counted(lp)
    if isinstance(c, str):
        return None, c
    # the bound must not change while the loop runs: a bound that reads the object the body's call modifies is re-evaluated
    # after every call and moves with it
    bound = sym.strip_casts(c.bound)
    reads = {sym.canon(st.get('recv') or {}) for st in subterms(bound) if isinstance(st, dict) and st.get('k') == 'call'} | \
            {sym.canon(st) for st in subterms(bound) if isinstance(st, dict) and st.get('k') == 'member'}
    if any(r == recv_canon or r.startswith(recv_canon + '.') for r in reads):
        return 'VARIANT', 'the loop bound `%s` reads %s, which every %s() call in the body changes' % (sym.canon(bound, roles)[:80], recv_canon, call_short)
    totals = []
    for vals, pre in loops.entry_state(f, lp, db=db, roles=roles):
        I = linear.lin(loops.subst_vals(f, c.ctr_term, vals, roles), roles)
        B = linear.lin(loops.subst_vals(f, c.bound, vals, roles), roles)
        T, needs = loops.evaluations(c, I, B)
        if not loops.established(needs, pre, roles, nonneg=(I, B)):
            return 'WRAP', 'the loop runs its count only when [%s] >= 0, which no condition on the way to the loop establishes' % linear.fmt(needs)
        tot = linear._add(loops.executions(c, in_body[0].block, T), {'': len(before)} if before else {}, 1)
        if tot not in totals:
            totals.append(tot)
    if len(totals) != 1:
        return None, 'the paths into the loop do not agree on the number of calls (%s)' % [linear.fmt(t) for t in totals]
    return totals[0], '%d call(s) before the loop + %s' % (len(before), c.why)


def _reach(f, b0):
    seen = set()
    st = [b0]
    while st:
        b = st.pop()
        if b in seen or b is None:
            continue
        seen.add(b)
        st.extend(f.blocks[b]['succ'])
    return seen


def _first_event(f, bid, calls):
    return calls[0][0]


def check_stack(run, db):
    n = 0
    by_cls = {}
    for f in db.find(cls_t='memory_stack'):
        by_cls.setdefault(f.cls, []).append(f)
    for cls, fns in sorted(by_cls.items()):
        by = {f.short: f for f in fns if f.kind == 'method'}
        top, unw = by.get('top'), by.get('unwind')
        if top is None or unw is None:
            continue
        n += 1
        inst = '%s [%s]' % (strip_ns(cls), db.config)
        # index stored in markers
        rt = [s.ret for s in fwd.summarize(top, roles={}) if s.end == 'return']
        m = re.match(r'^detail::stack_marker\{(.+),this\.stack_,this\.block_end\(\)\}$', rt[0] if rt else '')
        if not m:
            run.violation('R-TERM.index', inst, top.loc, 'top() returns %s, not a marker of (index, stack_, block_end())' % rt,
                          site={'function': 'memory_stack::top', 'role': 'marker contents'})
            continue
        idx = m.group(1)
        from engine import linear
        idx_terms = [s.ret_term for s in fwd.summarize(top, roles={}) if s.end == 'return' and s.ret_term is not None]
        idx_t = sym.strip_casts(idx_terms[0]) if idx_terms else None
        while isinstance(idx_t, dict) and idx_t.get('k') != 'construct' and isinstance(idx_t.get('e'), dict):
            idx_t = sym.strip_casts(idx_t['e'])
        if not (isinstance(idx_t, dict) and idx_t.get('k') == 'construct' and idx_t.get('args')):
            run.broke('top() of %s: the marker construction was not found' % strip_ns(cls))
            continue
        want = linear.sub(linear.lin(idx_t['args'][0], {}), {'$m.index': 1})
        # an index that is not computed from the arena on demand but kept in a member is only the block index if every way out of
        # every member function that changes the arena's block count - also the exceptional ones - has updated it afterwards
        idx_lin = linear.lin(idx_t['args'][0], {})
        if not any('arena_.size()' in a for a in idx_lin):
            fields = [a for a in idx_lin if a.startswith('this.') and '(' not in a]
            if len(fields) != 1 or idx_lin != {fields[0]: 1}:
                run.broke('top() of %s stores the index %s: neither computed from the arena nor a member' % (strip_ns(cls), idx))
                continue
            F = fields[0]
            stale = []
            for g in fns:
                if g.pattern or g.rec.get('constm') or g.kind in ('dtor',):
                    continue
                if not any(t.get('short') in ('allocate_block', 'deallocate_block') and sym.canon(t.get('recv') or {}) == 'this.arena_' for e, t in flow.call_events(g)):
                    continue
                try:
                    SG = fwd.summarize(g, db=db, exceptional=True, roles={}, no_forward=True)
                except sym.PathLimit as ex:
                    run.broke(str(ex))
                    continue
                for sg in SG:
                    if sg.end not in ('return', 'propagate'):
                        continue
                    thrower = sg.throws[2].get('id') if sg.throws is not None and isinstance(sg.throws[2], dict) else None
                    last = -1
                    for k, c in enumerate(sg.calls):
                        if c[1].get('k') == 'call' and c[1].get('short') in ('allocate_block', 'deallocate_block') and c[0].startswith('this.arena_.') \
                                and c[1].get('id') != thrower and (sg.throw_at_call is None or k < sg.throw_at_call):
                            last = k
                    if last < 0:
                        continue
                    upd = [w for w in sg.writes if w[0] == F and w[4] > last]
                    if not upd:
                        how = ('`%s` throws' % tstr(sg.throws[2])[:60]) if sg.throws is not None else 'the function returns'
                        stale.append('%s: the arena gains or drops a block but %s is not updated before %s' % (g.short if g.kind == 'method' else g.kind, F, how))
            if stale:
                run.violation('R-TERM.index', inst, top.loc, 'markers store the member %s as block index; it goes stale - %s: a later unwind to an older marker drops the wrong number of blocks'
                              % (F, '; '.join(sorted(set(stale))[:2])), site={'function': 'memory_stack::top', 'role': 'cached block index is current at every exit'})
                continue
        cnt, how = loop_trip_count(unw, 'deallocate_block', 'this.arena_', db=db)
        site = {'function': 'memory_stack::unwind', 'role': 'blocks dropped == index difference'}
        if cnt == 'VARIANT':
            run.violation('R-TERM.index', inst, unw.loc, how + ': the bound shrinks as blocks are dropped, so fewer than (current index - m.index) blocks are released', site=site)
        elif cnt == 'WRAP':
            run.violation('R-TERM.index', inst, unw.loc, how + ': unwinding within one block would release every block', site=site)
        elif cnt is None:
            run.broke('unwind of %s: %s' % (strip_ns(cls), how))
        elif cnt == want:
            run.ok('R-TERM.index', inst, unw.loc, 'unwind returns [%s] blocks (%s); top() stores index %s' % (linear.fmt(cnt), how, idx))
        else:
            run.violation('R-TERM.index', inst, unw.loc,
                          'unwind returns [%s] blocks to the arena but markers store the index %s: the number of dropped blocks is not (current index - m.index)' % (linear.fmt(cnt), idx), site=site)
        # ---- both branches leave stack_ at m.top, after the checks
        S = [s for s in fwd.summarize(unw, db=db, roles={0: 'm'}, no_forward=True) if s.end == 'return']
        probs = []
        for s in S:
            names = [c[1].get('short') for c in s.calls]
            sets = [c for c in s.calls if c[0] == 'this.stack_.operator=(detail::fixed_memory_stack{$m.top})']
            uw = [c for c in s.calls if c[0] == 'this.stack_.unwind($m.top)']
            drops = 'deallocate_block' in names
            # the branch is identified by what it does to stack_ (a counted loop may run zero times on an enumerated path)
            if len(sets) == 1 and not uw:
                if build.CONFIGS[db.config]['FOONATHAN_MEMORY_DEBUG_POINTER_CHECK']:
                    chk = [i for i, c in enumerate(s.calls) if c[1].get('short') == 'debug_check_pointer']
                    if drops and (not chk or chk[0] > names.index('deallocate_block')):
                        probs.append('the marker index is not checked before the first block is dropped')
                    if len(chk) >= 2 and chk[1] > s.calls.index(sets[0]):
                        probs.append('the marker end is checked after stack_ was replaced')
                    if len(chk) < 2:
                        probs.append('the marker end is not checked on the cross-block branch')
            elif len(uw) == 1 and not sets and not drops:
                if build.CONFIGS[db.config]['FOONATHAN_MEMORY_DEBUG_POINTER_CHECK']:
                    chk = [i for i, c in enumerate(s.calls) if c[1].get('short') == 'debug_check_pointer']
                    if len(chk) < 2 or chk[-1] > s.calls.index(uw[0]):
                        probs.append('the marker top is not checked before the stack is unwound')
            elif drops:
                probs.append('cross-block branch does not set stack_ to fixed_memory_stack(m.top)')
            else:
                probs.append('same-block branch does not unwind stack_ to m.top')
        if probs:
            run.violation('R-UNWIND.top', inst, unw.loc, '; '.join(sorted(set(probs))), site={'function': 'memory_stack::unwind', 'role': 'stack_ ends at m.top after the checks'})
        else:
            run.ok('R-UNWIND.top', inst, unw.loc, 'both branches end with stack_ at m.top; checks first')
        # ---- cached arena
        crec = db.classes.get(cls)
        at = [fl['t'] for fl in (crec or {}).get('fields', []) if fl['name'] == 'arena_']
        if at and cls_template(at[0]) == 'memory_arena' and at[0].rstrip('>').rstrip().endswith('true'):
            run.ok('R-UNWIND.cache', inst, crec['loc'], 'arena_ is %s' % strip_ns(at[0])[:80])
        else:
            run.violation('R-UNWIND.cache', inst, (crec or {}).get('loc', ''), 'the stack\'s arena does not cache blocks (%s): unwound blocks go back upstream and a replay of the same requests need not yield the same addresses' % at,
                          site={'function': 'memory_stack::arena_', 'role': 'cached arena'})
    return n


class _Unknown(Exception):
    pass


EXPECT = {
    # truth of the operator as a function of the order of the two components: (sign(lhs.index - rhs.index), sign(lhs.top - rhs.top))
    'operator<': lambda oi, ot: oi < 0 or (oi == 0 and ot < 0),
    'operator>': lambda oi, ot: oi > 0 or (oi == 0 and ot > 0),
    'operator<=': lambda oi, ot: oi < 0 or (oi == 0 and ot <= 0),
    'operator>=': lambda oi, ot: oi > 0 or (oi == 0 and ot >= 0),
    'operator==': lambda oi, ot: oi == 0 and ot == 0,
    'operator!=': lambda oi, ot: not (oi == 0 and ot == 0),
}


def check_marker(run, db):
    """the six comparison operators of stack_marker only look at the markers through comparisons of (index, top): each operator
    is evaluated - symbolically, from its path conditions and return terms - for all nine orderings of the two components and must
    be the lexicographic order / its derived relation in every one.  Any spelling is accepted; a term that is not a comparison of
    these components is 'analysis broken'."""
    ops = {}
    for f in db.fns.values():
        if f.short.startswith('operator') and len(f.params) == 2 and 'stack_marker' in f.params[0]['t'] and not f.pattern:
            ops[f.short] = f
    roles = {0: 'lhs', 1: 'rhs'}
    traces = {}
    table = {}

    def side(t):
        c = sym.canon(t, roles)
        m = re.match(r'^\$(lhs|rhs)\.(index|top)$', c)
        return (m.group(1), m.group(2)) if m else None

    def ev(t, case, stack):
        t = sym.strip_casts(t)
        if not isinstance(t, dict):
            raise _Unknown(str(t))
        k = t.get('k')
        if k == 'lit' and (t.get('bool') or t.get('v') in (0, 1, True, False)):
            return bool(t.get('v'))
        if k == 'un' and t.get('op') == '!':
            return not ev(t['e'], case, stack)
        if k == 'cond':
            return ev(t['t'], case, stack) if ev(t['c'], case, stack) else ev(t['f'], case, stack)
        if k == 'bin' and t['op'] in ('&&', '&'):
            return ev(t['l'], case, stack) and ev(t['r'], case, stack)
        if k == 'bin' and t['op'] in ('||', '|'):
            return ev(t['l'], case, stack) or ev(t['r'], case, stack)
        if k == 'bin' and t['op'] in ('<', '>', '<=', '>=', '==', '!='):
            a, b = side(t['l']), side(t['r'])
            if a is None or b is None or a[1] != b[1]:
                raise _Unknown('comparison of %s' % sym.canon(t, roles)[:60])
            sgn = case[0] if a[1] == 'index' else case[1]
            if a[0] == b[0]:
                sgn = 0
            elif a[0] == 'rhs':
                sgn = -sgn
            return {'<': sgn < 0, '>': sgn > 0, '<=': sgn <= 0, '>=': sgn >= 0, '==': sgn == 0, '!=': sgn != 0}[t['op']]
        if k == 'call' and t.get('short') in ops and len(t.get('args', [])) == 2:
            a, b = sym.canon(t['args'][0], roles), sym.canon(t['args'][1], roles)
            if a not in ('$lhs', '$rhs') or b not in ('$lhs', '$rhs'):
                raise _Unknown('call %s' % sym.canon(t, roles)[:60])
            c2 = (0, 0) if a == b else (case if a == '$lhs' else (-case[0], -case[1]))
            return value(t['short'], c2, stack)
        raise _Unknown(sym.canon(t, roles)[:60])

    def value(name, case, stack):
        if (name, case) in table:
            return table[(name, case)]
        if (name, case) in stack:
            raise _Unknown('%s is defined through itself' % name)
        f = ops[name]
        if name not in traces:
            traces[name] = fwd.trace(f, roles=roles, db=db)
        res = set()
        for steps in traces[name]:
            okp = True
            ret = None
            for st in steps:
                if st['kind'] == 'br' and not st['assume']:
                    try:
                        holds = ev(st['cond'], case, stack | {(name, case)})
                    except _Unknown:
                        continue        # a test of something else (the same-stack assertion on `end`): both outcomes stay possible
                    if holds != st['taken']:
                        okp = False
                        break
                elif st['kind'] == 'end':
                    if st['end'] != 'return' or st['ret'] is None:
                        okp = False
                    else:
                        ret = st['ret']
            if okp and ret is not None:
                res.add(ev(ret, case, stack | {(name, case)}))
        if len(res) != 1:
            raise _Unknown('%s has %d feasible results for the ordering %s' % (name, len(res), case))
        table[(name, case)] = res.pop()
        return table[(name, case)]

    n = 0
    for name in sorted(EXPECT):
        f = ops.get(name)
        if f is None:
            continue
        n += 1
        inst = '%s [%s]' % (f.display, db.config)
        wrong = []
        try:
            for oi in (-1, 0, 1):
                for ot in (-1, 0, 1):
                    got = value(name, (oi, ot), frozenset())
                    if got != EXPECT[name](oi, ot):
                        wrong.append('index %s, top %s -> %s' % ('<=>'[oi + 1], '<=>'[ot + 1], str(got).lower()))
        except _Unknown as e:
            run.broke('%s: not a boolean combination of comparisons of (index, top): %s' % (f.display, e))
            continue
        if wrong:
            run.violation('R-MARKER', inst, f.loc, '%s is not the lexicographic (index, top) order resp. the relation derived from it: wrong for the orderings [%s] (lhs vs rhs)'
                          % (name, '; '.join(wrong[:4])), site={'function': 'detail::stack_marker::' + name, 'role': 'total order consistent with allocation order'})
        else:
            run.ok('R-MARKER', inst, f.loc, 'agrees with the lexicographic order in all 9 orderings of (index, top)')
    return n


def check_reseat(run, db, rule='R-UNWIND.reseat'):
    """memory_stack's cursor (stack_) and the arena's current block belong together - block_end() is read from the arena, the top from
    stack_: on every way out of a member function, exceptional ones included, on which the arena gained or dropped a block, stack_ has
    been re-seated after the last such change.  Reports of a caller's error (debug_check_* handlers) are not counted as exits."""
    n = 0
    by_cls = {}
    for f in db.find(cls_t='memory_stack'):
        by_cls.setdefault(f.cls, []).append(f)
    for cls, fns in sorted(by_cls.items()):
        for g in fns:
            if g.pattern or g.rec.get('constm') or g.kind in ('dtor', 'move-ctor', 'move-assign') or g.short in ('shrink_to_fit',):
                continue
            if not any(t.get('short') in ('allocate_block', 'deallocate_block') and sym.canon(t.get('recv') or {}) == 'this.arena_' for e, t in flow.call_events(g)):
                continue
            n += 1
            inst = '%s [%s]' % (g.display, db.config)
            try:
                SG = fwd.summarize(g, db=db, exceptional=True, roles={}, no_forward=True)
            except sym.PathLimit as ex:
                run.broke(str(ex))
                continue
            stale = set()
            for sg in SG:
                if sg.end not in ('return', 'propagate'):
                    continue
                tt = sg.throws[2] if sg.throws is not None and isinstance(sg.throws[2], dict) else None
                if tt is not None and str(tt.get('short', '')).startswith('debug_check'):
                    continue
                thrower = tt.get('id') if tt is not None else None
                last = -1
                lim = sg.throw_at_call if sg.throw_at_call is not None else len(sg.calls)
                for k, c in enumerate(sg.calls[:lim]):
                    if c[1].get('k') == 'call' and c[1].get('short') in ('allocate_block', 'deallocate_block') and c[0].startswith('this.arena_.') and c[1].get('id') != thrower:
                        last = k
                if last < 0:
                    continue
                reseated = any(w[0].startswith('this.stack_') and w[4] > last for w in sg.writes) or \
                    any(k > last and c[1].get('short') == 'operator=' and c[0].startswith('this.stack_.') for k, c in enumerate(sg.calls[:lim])) or \
                    (g.kind == 'ctor' and any(w[0].startswith('this.stack_') for w in sg.writes))
                if not reseated:
                    how = ('`%s` throws' % tstr(tt)[:60]) if tt is not None else 'the function returns'
                    stale.add('the arena gains or drops a block but stack_ still points into the old one when %s: top and block end then belong to different blocks' % how)
            site = {'function': 'memory_stack::' + (g.short if g.kind == 'method' else g.kind), 'role': 'cursor follows the arena on every exit'}
            if stale:
                run.violation(rule, inst, g.loc, '; '.join(sorted(stale)[:2]), site=site)
            else:
                run.ok(rule, inst, g.loc, 'stack_ re-seated after every change of the arena, before anything else can throw')
    return n


def check_raii(run, db):
    n = 0
    by_cls = {}
    for f in db.find(cls_t='memory_stack_raii_unwind'):
        by_cls.setdefault(f.cls, []).append(f)
    for cls, fns in sorted(by_cls.items()):
        for f in fns:
            if f.kind not in ('dtor', 'move-assign') and f.short != 'release':
                continue
            n += 1
            inst = '%s [%s]' % (f.display, db.config)
            probs = []
            if f.short == 'release':
                w = [e for e in f.events() if e['ev'] == 'assign' and sym.canon(e['lhs']) == 'this.stack_' and sym.canon(e['rhs']) == 'null']
                if not w or not flow.must_pass_through(f, lambda e: e in w):
                    probs.append('release() does not null stack_')
            else:
                for s in fwd.summarize(f, db=db, roles={}, no_forward=True, inline_pred=lambda a, c, t: c.cls == a.cls and c.key != a.key and len(c.blocks) <= 12):
                    if s.end != 'return':
                        continue
                    uw = [c for c in s.calls if c[0].startswith('this.stack_.unwind(')]
                    nn = common.nonnull_on_path(s.conds, 'this.stack_')
                    armed = nn is True
                    disarmed = nn is False
                    if armed and (len(uw) != 1 or 'this.marker_' not in uw[0][0]):
                        probs.append('armed path unwinds %d time(s) / not to the stored marker' % len(uw))
                    if disarmed and uw:
                        probs.append('unwinds although released / moved-from')
                    if not armed and not disarmed:
                        probs.append('does not test stack_ before unwinding')
            if probs:
                run.violation('R-RAII', inst, f.loc, '; '.join(sorted(set(probs))), site={'function': 'memory_stack_raii_unwind::' + (f.short if f.kind == 'method' else f.kind), 'role': 'unwind iff armed'})
            else:
                run.ok('R-RAII', inst, f.loc, 'unwinds to marker_ iff stack_ is set' if f.short != 'release' else 'release disarms')
    return n


def run(run):
    run.rule('R-TERM.index', 'blocks dropped by unwind == current index - marker index (same index term as top())', floor=4)
    run.rule('R-UNWIND.top', 'both branches end at m.top; checks precede the state change', floor=4)
    run.rule('R-UNWIND.cache', 'the stack uses a caching arena', floor=4)
    run.rule('R-MARKER', 'markers are totally ordered lexicographically on (index, top)', floor=6)
    run.rule('R-RAII', 'memory_stack_raii_unwind unwinds iff armed', floor=3)
    run.rule('R-UNWIND.reseat', 'the stack cursor follows the arena on every way out of allocate / unwind, exceptional ones included', floor=4)
    run.explanation = ('Replay equality of addresses and preservation of older allocations follow dynamically from these clauses plus C01/C05; '
                       'they are not proved here.')
    for cfg in common.configs(run):
        db = build.load_db(cfg, log=run.log)
        if check_stack(run, db) < 2:
            run.broke('memory_stack top/unwind not found [%s]' % cfg)
        if check_marker(run, db) < 6:
            run.broke('stack_marker comparison operators not all instantiated [%s]' % cfg)
        check_reseat(run, db)
        if check_raii(run, db) < 3:
            run.broke('memory_stack_raii_unwind members not found [%s]' % cfg)
