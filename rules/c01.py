"""C01 - live allocations never overlap and lie inside memory the allocator owns (structural clauses).

R-BOUND    every function that advances a bump cursor does so only on paths that established
           `advance <= region_end - cursor` for exactly the advance it performs (not weaker: overrun; not stricter: exact fit lost),
           against the end of the same region the cursor belongs to.
R-CONSUME  a region taken from the bump stack by a non-consuming observer (top()) and given to a free list is
           consumed from the stack (bump / reassignment) on every normal and exceptional path; stack-like allocators
           never return an observer value.
R-PRE      FreeList::insert is only called with at least one node's worth of memory: a dominating comparison, or a listed reason.
R-UNLINK   free lists: the returned node(s) leave the list and capacity_ moves by what was (un)linked (rules/unlink.py, shared with C04).
W-layout   compile-time: arena/chunk headers are multiples of max_alignment and large enough for the node they hold.
"""
import re

from engine import build, fwd, sym, fixtures, flow, witness, linear
from engine.facts import cls_template, strip_ns, top_term, subterms, tstr, split_qual
from rules import common, unlink

LEVEL = 'other'
STACK = 'detail::fixed_memory_stack'
CURSOR_MOVERS = ('bump', 'bump_return', 'allocate_unchecked')
OWN_CURSOR_CLASSES = ('static_block_allocator', 'virtual_block_allocator')


def inline_cursor(f, callee, t):
    if len(callee.blocks) > 14:
        return False
    if cls_template(callee.cls) == STACK:
        return True
    if callee.cls == f.cls and callee.rec.get('constm') and len(callee.blocks) <= 6:
        return True     # block_end(), block_start(), top(), capacity ...
    if callee.short in ('top',) and len(callee.blocks) <= 4:
        return True
    if callee.cls == f.cls and callee.rec.get('nonpublic') and callee.key != f.key and len(callee.blocks) <= 24:
        return True     # a private helper of the same class is part of its callers' paths
    return False


def only_through_callers(f, fns):
    """a non-public member function that another candidate of the same class calls is decided on its callers' paths (where it is inlined),
    with the arguments they actually pass, not on its own"""
    if not f.rec.get('nonpublic'):
        return False
    for g in fns:
        if g.key != f.key and g.cls == f.cls:
            for e, t in flow.call_events(g):
                if t.get('key') == f.key:
                    return True
    return False


def bound_candidates(db):
    out = []
    for f in db.fns.values():
        if f.pattern or not f.name.startswith('foonathan::memory'):
            continue
        ct = cls_template(f.cls)
        if ct == STACK:
            if f.short == 'allocate':
                out.append(f)
            continue
        if ct in OWN_CURSOR_CLASSES and f.short == 'allocate_block':
            out.append(f)
            continue
        for e, t in flow.call_events(f):
            if t.get('short') in CURSOR_MOVERS and cls_template(t.get('cls', '')) == STACK:
                out.append(f)
                break
    return out


def assumed_checks(s, roles):
    """check_allocation_size(passed, supported, info) calls on the path act as `passed <= supported`"""
    out = []
    for c in s.calls:
        t = c[1]
        if t.get('k') == 'call' and t.get('short') == 'check_allocation_size' and len(t.get('args', [])) == 3:
            out.append(c)
    return out


def check_bound(run, db, fns=None, rule='R-BOUND', end_pred=None, site_fn=None):
    fns = bound_candidates(db) if fns is None else fns
    n = 0
    for f in fns:
        if only_through_callers(f, fns):
            continue
        try:
            S = fwd.summarize(f, db=db, inline_pred=inline_cursor, extra_forward=lambda a, b: None, roles={})
        except sym.PathLimit as e:
            run.broke(str(e))
            continue
        problems = []
        moved = 0
        detail_ok = ''
        for s in S:
            if s.end != 'return':
                continue
            for K, V in s.fields.items():
                if not K.endswith('cur_') or not K.startswith(('this.', '$')):
                    continue
                lv = linear.lin(V)
                # the initial value of the cursor on this path: K itself, or what the freshly constructed stack was given
                K0 = K
                abs_ok = False
                if K not in lv:
                    # moved to an absolute position that a path condition relates to the old cursor (remaining = end - cursor) ...
                    for ct, tk in s.cond_terms:
                        st = sym.strip_casts(ct)
                        is_cmp = isinstance(st, dict) and st.get('k') == 'bin' and st['op'] in ('<', '<=', '>', '>=', '==', '!=')
                        if not is_cmp and linear.sub(linear.sub(lv, {K: 1}), linear.lin(ct)) == {}:
                            abs_ok = True
                    if abs_ok:
                        moved += 1
                        detail_ok = 'cursor set to the region end (remaining = end - cursor tested)'
                        continue
                    # ... or re-based on a new block
                    based = [a for a in lv if a.endswith('.memory')]
                    if based:
                        K0 = based[0]
                    else:
                        K0 = None
                if K0 is None:
                    # moved to an absolute end position: needs a condition relating that position and the old cursor
                    okabs = False
                    for ct, tk in s.cond_terms:
                        lc = linear.lin(ct) if sym.strip_casts(ct).get('k') != 'bin' or sym.strip_casts(ct)['op'] not in ('<', '<=', '>', '>=', '==', '!=') else None
                        if lc is not None and linear.sub(linear.sub(lv, {K: 1}), lc) == {}:
                            okabs = True
                    if okabs:
                        moved += 1
                        detail_ok = 'cursor set to the region end (remaining = end - cursor)'
                    else:
                        problems.append('cursor %s is set to %s without a condition relating it to the old cursor' % (K, linear.fmt(lv)))
                    continue
                delta = linear.sub(lv, {K0: 1})
                if not delta:
                    continue
                moved += 1
                # candidates: branch conditions and check_allocation_size assumptions
                comps = []
                for ct, tk in s.cond_terms:
                    c = linear.compare(ct, tk, {})
                    if c:
                        comps.append(c)
                for c in assumed_checks(s, {}):
                    a = c[1]['args']
                    # evaluate the arguments as they were substituted when the call was summarised: use canonical call string
                    comps.append(('assume', c))
                # unsigned subtractions inside a guard that talks about the advance: B <= A must have been established
                def has_uns_sub(x):
                    return any(isinstance(y, dict) and y.get('k') == 'bin' and y.get('op') == '-' and y.get('uns') for y in subterms(x))
                # only comparisons that are themselves free of unsigned subtractions can establish anything
                safe = [linear.compare(ct, tk, {}) for ct, tk in s.cond_terms if not has_uns_sub(ct)]
                safe = [c for c in safe if c]
                for ct, tk in s.cond_terms:
                    c0 = linear.compare(ct, tk, {})
                    if not c0 or not (set(c0[0]) & set(delta)):
                        continue
                    for st in subterms(ct):
                        if isinstance(st, dict) and st.get('k') == 'bin' and st.get('op') == '-' and st.get('uns'):
                            la, lb = linear.lin(st['l']), linear.lin(st['r'])
                            if not [a for a in lb if a]:
                                continue
                            need = linear.sub(lb, la)
                            # established by a path condition d <= 0 with need = d - (non-negative terms): sizes, offsets and
                            # addresses are all non-negative quantities
                            if not any(all(v <= 0 for v in linear.sub(need, c[0]).values()) for c in safe):
                                problems.append('the guard subtracts in unsigned arithmetic (`%s`) without having established that the subtrahend does not '
                                                'exceed the minuend: the difference wraps around and the guard lets any size through' % tstr(st)[:90])
                found = None
                near = None
                for c in comps:
                    if c[0] == 'assume':
                        cs = c[1][0]     # canonical string of the call
                        m = re.match(r'^.*check_allocation_size\((.*)\)$', cs)
                        # parse first two args from the substituted term instead
                        t = c[1][1]
                        continue
                    d, op = c
                    rest = linear.sub(linear.sub(d, delta), {K0: 1} if K0 == K or True else {})
                    # d == delta + K0 - END  (<= 0)
                    if any(a in delta for a in rest) or not rest:
                        # maybe cursor not part of the comparison (END given as a size): d == delta - SIZE
                        rest2 = linear.sub(d, delta)
                        if rest2 and not any(a in delta for a in rest2) and all(v < 0 for v in rest2.values()) and K0 not in rest2:
                            rest = rest2
                        else:
                            if set(delta) & set(d):
                                near = (d, op)
                            continue
                    if not all(v < 0 for v in rest.values()):
                        near = (d, op)
                        continue
                    found = (d, op, rest)
                    break
                if found is None:
                    # check_allocation_size(needed, B.size): needed == delta and the cursor starts at B.memory
                    for c in assumed_checks(s, {}):
                        t = c[1]
                        # arguments were substituted in c[0] only as a string; recompute with the final env is not possible,
                        # so compare canonically: first argument string vs delta rendered from the same atoms
                        args = _split_args(c[0])
                        if len(args) >= 2:
                            a0 = args[0]
                            a1 = args[1]
                            if K0.endswith('.memory') and a1 == K0[:-len('.memory')] + '.size' and _same_linear(a0, delta):
                                found = (delta, '<=', {a1: -1})
                if found is None:
                    if near is not None:
                        problems.append('the cursor %s advances by [%s] but the guard on this path is [%s %s 0]: it does not bound exactly that advance'
                                        % (K, linear.fmt(delta), linear.fmt(near[0]), near[1]))
                    else:
                        problems.append('the cursor %s advances by [%s] on a path without a bounds check against the region end (%s)'
                                        % (K, linear.fmt(delta), ' & '.join(s.cond_key())[:120] or 'unconditional'))
                    continue
                d, op, rest = found
                if op == '<':
                    problems.append('the guard is strict ([%s] < 0): a request that fits exactly is rejected' % linear.fmt(d))
                    continue
                # same region: an index used to select the cursor must select the end as well
                m = re.search(r'\[(.+?)\]', K)
                if m and not any(m.group(1) in a for a in rest):
                    problems.append('the cursor %s is checked against the end [%s] of a different region' % (K, linear.fmt(rest)))
                    continue
                if end_pred is not None and not end_pred(rest):
                    problems.append('the advance is bounded by [%s], which is not the end of this region' % linear.fmt({a: -v for a, v in rest.items()}))
                    continue
                detail_ok = 'advance [%s] <= [%s] - cursor' % (linear.fmt(delta), linear.fmt({a: -v for a, v in rest.items()}))
        inst = '%s [%s]' % (f.display, db.config)
        site = {'function': site_fn or site_name(f), 'role': 'bump equals what was checked'}
        n += 1
        if problems:
            run.violation(rule, inst, f.loc, '; '.join(sorted(set(problems))[:2]), site=site)
        elif moved == 0:
            run.violation(rule, inst, f.loc, 'calls a cursor-moving function but no cursor movement could be derived (unlisted bump site)', site=site)
        else:
            run.ok(rule, inst, f.loc, detail_ok)
    return n


def _split_args(cs):
    i = cs.find('check_allocation_size(')
    if i < 0:
        return []
    body = cs[i + len('check_allocation_size('):-1]
    out, depth, cur = [], 0, ''
    for ch in body:
        if ch in '([{':
            depth += 1
        elif ch in ')]}':
            depth -= 1
        if ch == ',' and depth == 0:
            out.append(cur)
            cur = ''
        else:
            cur += ch
    out.append(cur)
    return out


def _same_linear(canon_str, delta):
    """is the canonical sum string made of exactly the atoms of delta (with multiplicities)?  crude but conservative:
    every atom of delta must occur in the string the right number of times and nothing else but '+', '(' , ')' and spaces"""
    rest = canon_str
    for a, v in sorted(delta.items(), key=lambda kv: -len(kv[0])):
        if a == '' or v < 0:
            return False
        for _ in range(v):
            i = rest.find(a)
            if i < 0:
                return False
            rest = rest[:i] + rest[i + len(a):]
    return re.sub(r'[\s()+]', '', rest) == ''


def site_name(f):
    q = split_qual(strip_ns(f.name))
    return '::'.join(cls_template(x) if i < len(q) - 1 else x.split('<')[0] for i, x in enumerate(q))


# --------------------------------------------------------------------------- R-CONSUME

def inline_same_class(f, callee, t):
    return callee.cls == f.cls and len(callee.blocks) <= 16 and callee.key != f.key


def check_consume(run, db, fns=None, rule='R-CONSUME'):
    """in classes that own both a bump stack and free lists"""
    n = 0
    if fns is None:
        fns = [f for f in db.find(cls_t='memory_pool_collection') if f.kind == 'method']
    for f in fns:
        # only functions that (after inlining helpers of the class) insert an observer-derived region
        try:
            S = fwd.summarize(f, db=db, inline_pred=inline_same_class, extra_forward=lambda a, b: None, roles={}, exceptional=True)
        except sym.PathLimit as e:
            run.broke(str(e))
            continue
        relevant = False
        problems = []
        for s in S:
            if s.end not in ('return', 'propagate'):
                continue
            calls = s.calls
            for idx, c in enumerate(calls):
                t = c[1]
                if t.get('k') != 'call' or t.get('short') != 'insert' or not t.get('args'):
                    continue
                cs = c[0]
                m = re.match(r'^(.*)\.insert\((.*)\)$', cs)
                if not m:
                    continue
                argstr = m.group(2)
                om = re.search(r'(this\.\w+)\.top\(\)', argstr)
                if not om:
                    continue
                relevant = True
                stack = om.group(1)
                # discharged by a bump/allocate on that stack or a reassignment of it, before or after the insert on this path
                consumed = False
                # "before": the observer value was taken, then the stack bumped, then inserted (the repaired shape)
                for c2 in calls:
                    if c2 is c:
                        continue
                    if re.match(r'^%s\.(bump|bump_return|allocate|allocate_unchecked)\(' % re.escape(stack), c2[0]):
                        consumed = True
                    if re.match(r'^%s\.operator=\(' % re.escape(stack), c2[0]) and calls.index(c2) > idx:
                        consumed = True
                for w in s.writes:
                    if w[0] == stack and w[4] > idx:
                        consumed = True
                if not consumed:
                    how = 'returns' if s.end == 'return' else 'leaves by exception (`%s` throws)' % (tstr(s.throws[2])[:60] if s.throws else '?')
                    problems.append('the region %s is put on a free list but %s is neither bumped nor reassigned before the function %s: the same bytes stay available to the stack'
                                    % (argstr[:70], stack, how))
        if not relevant:
            continue
        n += 1
        inst = '%s [%s]' % (f.display, db.config)
        if problems:
            run.violation(rule, inst, f.loc, '; '.join(sorted(set(problems))[:2]), site={'function': site_name(f), 'role': 'inserted region consumed'})
        else:
            run.ok(rule, inst, f.loc, 'every inserted observer-derived region is consumed from the stack on all normal and exceptional paths')
    return n


def check_no_observer_return(run, db):
    """stack-like allocators return memory obtained from a consuming call, never stack.top()"""
    n = 0
    for ct in ('memory_stack', 'iteration_allocator', 'static_allocator', 'detail::joint_stack', 'temporary_allocator', 'joint_allocator', STACK):
        for f in db.find(cls_t=ct):
            if not f.rec.get('ret', '').endswith('*') or f.short in ('top', 'block_end', 'block_start', 'operator->', 'get', 'begin_node', 'end_node'):
                continue
            if not f.short.startswith(('allocate', 'try_allocate', 'bump_return')):
                continue
            n += 1
            bad = False
            for e in f.events():
                if e['ev'] == 'return' and isinstance(e.get('e'), dict):
                    r = sym.strip_casts(e['e'])
                    if r.get('k') == 'call' and r.get('short') == 'top':
                        bad = True
            inst = '%s [%s]' % (f.display, db.config)
            if bad:
                run.violation('R-CONSUME', inst, f.loc, 'returns the stack top without consuming it',
                              site={'function': site_name(f), 'role': 'returns observer'})
            else:
                run.ok('R-CONSUME', inst, f.loc, 'returned memory comes from a consuming call')
    return n


# --------------------------------------------------------------------------- R-PRE

# call sites of FreeList::insert that rely on a documented contract instead of a local comparison (reason)
INSERT_CONTRACT = {
    'memory_pool::allocate_block': 'arena block size >= min_block_size is the constructor contract; blocks never shrink (growth factor >= 1 is a static_assert)',
    'memory_pool_collection::allocate_node': 'reserves def_capacity() = block_size / pools, >= max_node_size by the constructor check (bad_node_size)',
    'memory_pool_collection::allocate_array': 'reserves def_capacity() resp. a whole number of pool nodes (rounded up)',
    'memory_pool_collection::try_reserve_memory': 'capacity is def_capacity() (see allocate_node)',
    'detail::free_memory_list::free_memory_list': 'constructor contract: caller passes a block of at least min_block_size',
    'detail::ordered_free_memory_list::ordered_free_memory_list': 'constructor contract',
    'detail::small_free_memory_list::small_free_memory_list': 'constructor contract',
    'memory_pool_collection::reserve': 'documented precondition of reserve()',
    'detail::small_free_memory_list::deallocate': 'this list never hands out arrays (allocate(n) returns nullptr); the array form only forwards and is unreachable with valid arguments',
}


def check_pre(run, db):
    n = 0
    for f in db.fns.values():
        if f.pattern or not f.name.startswith('foonathan::memory'):
            continue
        for e, t in flow.call_events(f):
            if t.get('short') != 'insert' or 'free_memory_list' not in t.get('cls', '') or len(t.get('args', [])) != 2:
                continue
            n += 1
            inst = '%s -> %s [%s]' % (f.display, strip_ns(t.get('callee', 'insert')), db.config)
            sn = site_name(f)
            size_arg = sym.canon(t['args'][1])
            # every path to the call has decided `size argument >= M` with M made of the list's minimum (min_block_size / node_size):
            # by value and polarity of the comparison, whichever way round and on whichever edge it is written
            guarded = False
            try:
                reach = 0
                good = 0
                for steps in fwd.trace(f, roles={}, db=db):
                    pre = []
                    hit = None
                    for st in steps:
                        if st['kind'] == 'br':
                            pre.append((st['cond'], st['taken']))
                        elif st['kind'] == 'ev' and isinstance(st.get('t'), dict) and st['t'].get('id') == t.get('id') and st['t'].get('short') == 'insert':
                            hit = st['t']
                            break
                    if hit is None:
                        continue
                    reach += 1
                    size_lin = linear.lin(hit['args'][1], {})
                    okp = False
                    for ct, tk in pre:
                        for a, tka in fwd.split_condition(ct, tk):
                            c = linear.compare(a, tka, {})
                            if not c or c[1] not in ('<', '<='):
                                continue
                            m = linear._add(c[0], size_lin, 1)         # d = M - size  =>  d + size = M
                            if m and all(v > 0 and ('min_block_size' in k or 'node_size' in k) for k, v in m.items()):
                                okp = True
                    good += okp
                guarded = reach > 0 and good == reach
            except sym.PathLimit:
                pass
            # by effect: a whole block as the arena / the collection's reserve routine returned it (B.memory, B.size), or the
            # caller's own (pointer, size) parameters passed on unchanged (the obligation travels to the caller)
            whole = False
            try:
                for steps in fwd.trace(f, roles={}, db=db):
                    for st in steps:
                        tt = st.get('t') if st['kind'] == 'ev' else None
                        if isinstance(tt, dict) and tt.get('k') == 'call' and tt.get('id') == t.get('id') and tt.get('short') == 'insert':
                            a0, a1 = sym.canon(tt['args'][0]), sym.canon(tt['args'][1])
                            if a0.endswith('.memory') and a1.endswith('.size') and a0[:-7] == a1[:-5] and ('allocate_block()' in a0 or 'reserve_memory(' in a0):
                                whole = True
            except sym.PathLimit:
                pass
            fwd_params = all(sym.strip_casts(a).get('k') == 'param' for a in t['args'])
            if guarded:
                run.ok('R-PRE', inst, t.get('loc', f.loc), 'size compared with the list\'s minimum before the call')
            elif whole:
                run.ok('R-PRE', inst, t.get('loc', f.loc), 'a whole block as obtained from the arena / reserve_memory (>= the minimum by the constructor contract)')
            elif fwd_params and f.kind != 'ctor' and cls_template(f.cls) in ('memory_pool', 'memory_pool_collection'):
                run.ok('R-PRE', inst, t.get('loc', f.loc), 'forwards its own (pointer, size) parameters: the obligation is the caller\'s')
            elif sn in INSERT_CONTRACT:
                run.ok('R-PRE', inst, t.get('loc', f.loc), 'by contract: ' + INSERT_CONTRACT[sn])
            else:
                run.violation('R-PRE', inst, t.get('loc', f.loc),
                              'FreeList::insert requires at least one node (`no_nodes - 1` wraps otherwise); this call site neither compares the size (%s) with the minimum nor is a listed contract site' % size_arg[:60],
                              site={'function': sn, 'role': 'insert precondition'})
    return n


CURSOR_OWNERS = ('static_block_allocator', 'virtual_block_allocator', 'detail::fixed_memory_stack', 'memory_stack', 'iteration_allocator',
                 'static_allocator', 'memory_pool_collection', 'memory_pool', 'memory_arena', 'detail::memory_block_stack', 'detail::memory_arena_cache')


def check_cursor_owner_moves(run, db):
    """the objects that hand memory out by moving a cursor keep cursor, end and block size together when they are moved or
    swapped (a cursor over one buffer with the other object's block size rewinds across live blocks): coverage / source-reset /
    counter-exchange rules of C12 restricted to these classes, reported as R-BOUND.move"""
    from rules import c12, c05
    rr = c05._Renamed(run, 'R-BOUND.move')
    n = 0
    for cls, ops in sorted(c12.classes_with_moves(db).items()):
        if cls not in db.classes or cls_template(cls) not in CURSOR_OWNERS:
            continue
        n += 1
        c12.check_coverage(rr, db, cls, ops)
        c12.check_emptiness(rr, db, cls, ops)
        c12.check_swap_exchanges(rr, db, cls, ops)
    return n


def run(run):
    run.rule('R-BOUND.reseat', 'the stack cursor and the arena\'s current block (which supplies the block end) change together on every way out of a member function, exceptional ones included (shared rule of C06)', floor=4)
    run.rule('R-BOUND.move', 'cursor, region end and block size of the bump allocators travel together through move and swap', floor=10)
    run.rule('R-RUN', 'an array handed out by the intrusive lists covers the requested bytes: the search accounts the interval exactly (shared with C02/C04)', floor=2)
    run.rule('R-BOUND', 'cursor advance == checked amount, against the end of the same region', floor=10)
    run.rule('R-CONSUME', 'inserted observer-derived regions are consumed from the stack on all paths; no observer is returned', floor=10)
    run.rule('R-PRE', 'FreeList::insert call sites establish the minimum size', floor=10)
    run.rule('R-UNLINK', 'free-list bookkeeping: unlink what is returned, count what is linked', floor=10)
    run.rule('W-layout', 'header sizes/alignments (compile-time)', floor=1)
    run.explanation = ('Disjointness is not enumerated; it is reduced to necessary structural clauses: one owner per region (R-CONSUME), '
                       'no bump beyond what was checked (R-BOUND), no degenerate insertion (R-PRE), list nodes leave the list when handed out (R-UNLINK).')
    run.assumptions += ['pairwise disjointness over histories, and that links written into free nodes never land in live nodes, are not decided (they need the list shape invariant)']
    for cfg in common.configs(run):
        db = build.load_db(cfg, log=run.log)
        from rules import c06 as _c06
        _c06.check_reseat(run, db, rule='R-BOUND.reseat')
        run.count('functions_analysed', len(db.fns))
        if check_bound(run, db) < 6:
            run.broke('cursor-moving functions not found [%s]' % cfg)
        if check_consume(run, db) < 2:
            run.broke('no function inserts an observer-derived region (insert_rest vanished?) [%s]' % cfg)
        check_no_observer_return(run, db)
        if check_pre(run, db) < 8:
            run.broke('FreeList::insert call sites not found [%s]' % cfg)
        if unlink.check_unlink(run, db) < 6:
            run.broke('free list functions not found [%s]' % cfg)
        if unlink.check_cursor_reset(run, db) < 3:
            run.broke('ordered list constructors / swap not found [%s]' % cfg)
        if check_cursor_owner_moves(run, db) < 6:
            run.broke('bump allocators with move operations not found [%s]' % cfg)
        from rules import c02
        if c02.check_run(run, db) < 2:
            run.broke('array search functions not found [%s]' % cfg)
    witness.run_witness(run, 'W-layout', 'c01_layout.cpp', common.configs(run))
    fixtures.expect_fire(run, 'c01_bad.cpp', _fixture, 'R-BOUND')


def _fixture(db):
    from engine import report
    fired = set()
    for f in db.fns.values():
        if f.cls.startswith('verif_fix::') and f.kind == 'method':
            r = report.Run('C01', 'quick')
            if f.short.startswith('consume_'):
                check_consume(r, db, [f])
            else:
                check_bound(r, db, [f])
            if any(o['verdict'] != 'ok' for o in r.obligations):
                fired.add(f.short)
    return fired
