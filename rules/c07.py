"""C07 - iteration allocator: memory lives exactly N iterations; regions are disjoint (structural clauses).

R-TERM.start   the start of stacks_[i] after construction, as a closed form in i (accumulator loop summarised), is the same
               term as block_start(i); `i*(size/N)` vs `(i*size)/N` is refuted by lemma L1 (they differ whenever N does not divide size)
R-TERM.tile    block_end(i) is block_start(i + 1); block_start is base + floor(i*size/N) (monotone in i, 0 at i = 0, size at i = N)
R-ITER         next_iteration moves cur_ to its cyclic successor and unwinds exactly stacks_[cur_] to block_start(cur_) (same index term);
               nothing else unwinds or reassigns a region stack (who-may-call)
R-BOUND        allocate / try_allocate bound the current stack by block_end of the same index (allocate: shared with C01)
"""
import re

from engine import build, fwd, sym, fixtures, flow
from engine.facts import cls_template, strip_ns, top_term, subterms, tstr
from rules import common, c01

LEVEL = 'other'
CT = 'iteration_allocator'


def _r(x):
    return {'k': 'raw', 's': x}


def _b(op, l, r):
    return {'k': 'bin', 'op': op, 'l': l, 'r': r}


MEM, SIZE, NN, II = _r('this.block_.memory'), _r('this.block_.size'), _r('T:N'), _r('$i')
FORM_FLOOR_OF_PRODUCT = sym.canon(_b('+', MEM, _b('/', _b('*', II, SIZE), NN)))      # base + (i*size)/N
FORM_PRODUCT_OF_FLOOR = sym.canon(_b('+', MEM, _b('*', II, _b('/', SIZE, NN))))      # base + i*(size/N)


def norm_bs(c):
    """block_start as a member function or as a static helper that is handed block_: one spelling"""
    return re.sub(r'[\w:<>, ]*iteration_allocator<[^()]*>::block_start\(this\.block_,', 'this.block_start(', c)


def norm_end(c):
    """one spelling for the end of region x: block_end(x) is block_start(x + 1), whether or not the accessor exists"""
    c = norm_bs(c)
    c = re.sub(r'this\.block_start\(\(1 \+ ([^()]+|[^()]*\([^()]*\)[^()]*)\)\)', r'this.block_end(\1)', c)
    c = re.sub(r'this\.block_start\(\(([^()]+|[^()]*\([^()]*\)[^()]*) \+ 1\)\)', r'this.block_end(\1)', c)
    return c


def _is_region_end(atoms):
    """the end of the current region: block_end(cur_) / block_start(cur_ + 1), as a call or with the accessors seen through"""
    if {norm_end(a) for a in atoms} == {'this.block_end(this.cur_)'}:
        return True
    nxt = sym.canon(_b('+', _r('this.cur_'), {'k': 'lit', 'v': 1}))
    forms = {sym.canon(_b('/', _b('*', _r(nxt), SIZE), NN)), sym.canon(_b('*', _r(nxt), _b('/', SIZE, NN)))}
    return 'this.block_.memory' in atoms and len(atoms) == 2 and bool((atoms - {'this.block_.memory'}) & forms)


def by_inst(db):
    out = {}
    for f in db.find(cls_t=CT):
        out.setdefault(f.cls, []).append(f)
    return out


def closed_form_start(ctor, db=None):
    """(canonical start term as a function of the region index `$i`, description) for the value stored into stacks_[i] by the
    constructor.  The loop is summarised as a counted loop (engine/loops.py: up or down, for / while / do); the region index is
    whatever expression of the counter indexes stacks_ (the counter itself, `remaining - 1`, a local naming either), and the loop has
    to initialise every region 0 .. N-1 exactly once."""
    from engine import loops, linear
    assign = None
    for e, t in flow.call_events(ctor):
        if t.get('short') == 'operator=' and isinstance(t.get('recv'), dict):
            r = sym.strip_casts(t['recv'])
            if r.get('k') == 'bin' and r.get('op') == '[]' and sym.canon(r['l']) == 'this.stacks_':
                assign = (e, t, r)
    if assign is None:
        return None, 'no assignment stacks_[i] = fixed_memory_stack(...) in the constructor'
    e_as, t_as, r_as = assign
    lps = [lp for lp in loops.find_loops(ctor) if e_as.block in lp.body]
    if not lps:
        return None, 'constructor has no loop over the regions'
    lp = lps[0]
    c = loops.counted(lp)
    if isinstance(c, str):
        return None, 'the loop over the regions is not a counted loop: ' + c
    if not loops.once_per_cycle(lp, e_as.block):
        return None, 'the region stack is not assigned exactly once per cycle'
    counter = c.ctr_term
    lv = common.single_assignment_locals(ctor)
    lv.pop(counter.get('did'), None)
    idx = common.expand_locals(sym.strip_casts(r_as['r']), lv)
    ckey = sym.canon(counter)
    li = linear.lin(idx)
    if li.get(ckey) != 1 or set(li) - {ckey, ''}:
        return None, 'region stacks are not indexed by the loop counter'
    shift = li.get('', 0)                    # index = counter + shift
    # coverage: N cycles, first index 0 (counting up) or N-1 (counting down)
    for vals, pre in loops.entry_state(ctor, lp, db=db, roles={}):
        I = linear.lin(loops.subst_vals(ctor, counter, vals))
        B = linear.lin(loops.subst_vals(ctor, c.bound, vals))
        T, needs = loops.evaluations(c, I, B)
        runs = loops.executions(c, e_as.block, T)
        first = linear._add(I, {'': shift} if shift else {}, 1)
        if c.ca:
            first = linear._add(first, {'': c.step}, 1) if _step_precedes(ctor, lp, c, e_as) else first
        natoms = [a for a in runs if a]
        if len(natoms) == 1 and runs == {natoms[0]: 1}:
            nkey = natoms[0]
            want_first = {} if c.step == 1 else {nkey: 1, '': -1}
            if first != want_first:
                return ('COVER', 'the loop initialises regions starting at index [%s] for [%s] cycles: not the regions 0 .. N-1' % (linear.fmt(first), linear.fmt(runs))), 'coverage'
        elif runs and all(isinstance(v, int) for v in runs.values()) and not natoms:
            pass        # N folded to a literal: the count is a number, nothing symbolic to compare
    arg = sym.strip_casts(t_as['args'][0])
    X = None
    if arg.get('k') == 'construct' and arg.get('args'):
        X = sym.strip_casts(arg['args'][0])
    if X is None:
        return None, 'no assignment stacks_[i] = fixed_memory_stack(...) in the constructor'
    roles_i = {'k': 'raw', 's': '$i'}

    def subst_counter(t):
        if not isinstance(t, dict):
            return t
        if t.get('k') in ('local', 'bin') and linear.lin(t) == li:
            return roles_i
        return {k: (subst_counter(v) if isinstance(v, dict) else [subst_counter(x) if isinstance(x, dict) else x for x in v] if isinstance(v, list) else v)
                for k, v in t.items()}
    Xe = common.expand_locals(X, lv)
    if X.get('k') == 'local' and X.get('did') not in lv:
        if shift != 0 or c.step != 1:
            return None, 'accumulated region starts with a loop that does not count the index up from 0'
        # accumulator: init c0 before the loop, `X += step` once per iteration
        c0 = None
        step = None
        consts = {}
        for e in ctor.events():
            if e['ev'] == 'decl':
                for v in e['vars']:
                    if v['did'] == X['did']:
                        c0 = v.get('init')
                    elif v.get('init') is not None:
                        consts[v['did']] = v['init']
            if e['ev'] == 'assign' and sym.strip_casts(e['lhs']).get('did') == X['did']:
                if e['op'] != '+=' or step is not None:
                    return None, 'region start accumulator is updated in an unrecognised way (%s)' % e['op']
                step = e['rhs']
        if c0 is None or step is None:
            return None, 'accumulator pattern not recognised'

        def inline_consts(t):
            if not isinstance(t, dict):
                return t
            if t.get('k') == 'local' and t.get('did') in consts:
                return inline_consts(consts[t['did']])
            return {k: (inline_consts(v) if isinstance(v, dict) else [inline_consts(x) if isinstance(x, dict) else x for x in v] if isinstance(v, list) else v)
                    for k, v in t.items()}
        term = {'k': 'bin', 'op': '+', 'l': inline_consts(c0), 'r': {'k': 'bin', 'op': '*', 'l': roles_i, 'r': inline_consts(step)}, 'lptr': True}
        return sym.canon(term), 'accumulator: start + i * step'
    return ('CALL', subst_counter(Xe)), 'direct'


def _step_precedes(ctor, lp, c, e_as):
    """in a do-while cycle: is the counter stepped before the region assignment?"""
    from engine import loops
    for e in ctor.events():
        if (e.block in lp.body) and loops._counter_step(e, c.did) not in (0, None):
            return ctor.ev_dominates(e, e_as)
    return False


def _lin_of_canon(c):
    """value of the two recognised region-start shapes at i = 0"""
    if c in (FORM_FLOOR_OF_PRODUCT, FORM_PRODUCT_OF_FLOOR):
        return {'this.block_.memory': 1}      # 0 * x / N == 0 and 0 * (x / N) == 0
    return None


def block_start_term(fn):
    """canonical return term of block_start with its parameter as $i and locals inlined"""
    if len(fn.params) == 2:
        # a static helper taking the block explicitly: block_start(block_, i)
        S = [s for s in fwd.summarize(fn, roles={0: 'blk', 1: 'i'}) if s.end == 'return']
        if len(S) != 1 or S[0].ret_term is None:
            return None
        from engine.inline import _walk_terms
        blk = {'k': 'member', 'base': {'k': 'this'}, 'name': 'block_'}
        t = _walk_terms(S[0].ret_term, lambda d: blk if d.get('k') == 'param' and d.get('i') == 0 else d)
        return sym.canon(t, {1: 'i'})
    S = [s for s in fwd.summarize(fn, roles={0: 'i'}) if s.end == 'return']
    if len(S) != 1 or S[0].ret is None:
        return None
    return S[0].ret


def check_instance(run, db, cls, fns):
    by = {}
    for f in fns:
        by.setdefault(f.short if f.kind == 'method' else f.kind, []).append(f)
    inst0 = '%s [%s]' % (strip_ns(cls), db.config)
    bs = by.get('block_start', [None])[0]
    be = by.get('block_end', [None])[0]
    if bs is None:
        run.broke('block_start of %s not instantiated' % strip_ns(cls))
        return
    bst = block_start_term(bs)
    # ---- tile
    ok_form = bst == FORM_FLOOR_OF_PRODUCT
    alt_form = bst == FORM_PRODUCT_OF_FLOOR
    # without a block_end accessor its users spell the end of region i as block_start(i + 1) themselves: R-BOUND / R-COUNTER decide them
    bet = [s for s in fwd.summarize(be, roles={0: 'i'}) if s.end == 'return'] if be is not None else []
    be_ok = be is None or (len(bet) == 1 and norm_end(bet[0].ret or '') == 'this.block_end($i)')
    if (ok_form or alt_form) and be_ok:
        run.ok('R-TERM.tile', inst0, bs.loc, 'block_start(i) = %s ; %s' % (bst, 'block_end(i) = block_start(i + 1)' if be is not None else 'no block_end accessor: the end of region i is written block_start(i + 1) at its uses'))
    elif not be_ok:
        run.violation('R-TERM.tile', inst0, (be or bs).loc, 'block_end(i) is %s, not block_start(i + 1): neighbouring regions overlap or leave a gap' % (bet[0].ret if bet else '?'),
                      site={'function': CT + '::block_end', 'role': 'regions tile the block'})
    else:
        run.broke('block_start has an unrecognised form: %s' % bst)
        return
    # ---- start of each region after construction
    for ctor in by.get('ctor', []):
        cf, how = closed_form_start(ctor, db)
        inst = '%s [%s]' % (ctor.display, db.config)
        site = {'function': CT + '::<ctor>', 'role': 'region start agrees with block_start'}
        if cf is None:
            run.broke('%s: %s' % (ctor.display, how))
            continue
        if isinstance(cf, tuple) and cf[0] == 'COVER':
            run.violation('R-TERM.start', inst, ctor.loc, cf[1], site=dict(site, role='every region is initialised'))
            continue
        if isinstance(cf, tuple):
            t = cf[1]
            if t.get('k') == 'call' and t.get('short') == 'block_start' and sym.canon(t['args'][-1]) == '$i' \
                    and (len(t['args']) == 1 or sym.canon(t['args'][0]) == 'this.block_'):
                run.ok('R-TERM.start', inst, ctor.loc, 'stacks_[i] starts at block_start(i)')
            else:
                run.violation('R-TERM.start', inst, ctor.loc, 'stacks_[i] starts at %s' % sym.canon(t), site=site)
            continue
        if cf == bst:
            run.ok('R-TERM.start', inst, ctor.loc, 'closed form %s equals block_start(i)' % cf)
            continue
        # lemma L1: i*(a/b) and (i*a)/b differ whenever b does not divide a (and then (i*a)/b is the larger one for i >= 2)
        if {cf, bst} == {FORM_FLOOR_OF_PRODUCT, FORM_PRODUCT_OF_FLOOR}:
            run.violation('R-TERM.start', inst, ctor.loc,
                          'the constructor starts region i at %s, every later use takes block_start(i) = %s. i*(size/N) and (i*size)/N differ whenever N does not '
                          'divide size (lemma L1); then block_start(i) lies above the constructed start for some i >= 2 and the first next_iteration() into that region '
                          'calls unwind(top) with top > cur_: size_t(cur_ - top) wraps and the debug fill runs over ~2^64 bytes' % (cf, bst), site=site)
        else:
            run.broke('region start %s and block_start %s are neither equal nor of a known refutable shape' % (cf, bst))
    # ---- next_iteration
    for f in by.get('next_iteration', []):
        inst = '%s [%s]' % (f.display, db.config)
        site = {'function': CT + '::next_iteration', 'role': 'cyclic successor and reset of the same region'}
        S = [s for s in fwd.summarize(f, roles={}) if s.end == 'return']
        probs = []
        SUCC = ('(1 + this.cur_)', '(this.cur_ + 1)')
        MOD = tuple('(%s %% T:N)' % x for x in SUCC) + tuple('((%s == T:N) ? 0 : %s)' % (x, x) for x in SUCC)
        WRAP = tuple('(%s == T:N)' % x for x in SUCC) + tuple('(T:N == %s)' % x for x in SUCC) + tuple('(T:N <= %s)' % x for x in SUCC)
        for s in S:
            nxt = sym.canon(s.fields['this.cur_'], {}) if 'this.cur_' in s.fields else None
            wrapped = [tk for c, tk in s.conds if c in WRAP]
            # one expression, or the two-branch form: wrap test true -> 0, false -> cur_ + 1
            good = nxt in MOD and not wrapped or (wrapped == [True] and nxt == '0') or (wrapped == [False] and nxt in SUCC)
            if not good:
                probs.append('cur_ becomes %s%s, not its cyclic successor' % (nxt or 'unchanged', (' under %s' % s.cond_key()[:2]) if s.conds else ''))
                continue
            un = [c for c in s.calls if c[1].get('short') == 'unwind']
            if len(un) != 1:
                probs.append('unwinds %d stacks' % len(un))
                continue
            want = 'this.stacks_[%s].unwind(this.block_start(%s))' % (nxt, nxt)
            if norm_bs(un[0][0]) != want:
                probs.append('resets `%s`, expected `%s`' % (un[0][0], want))
        if probs:
            run.violation('R-ITER', inst, f.loc, '; '.join(sorted(set(probs))), site=site)
        else:
            run.ok('R-ITER', inst, f.loc, 'cur_ := (cur_ + 1) % N, then stacks_[cur_].unwind(block_start(cur_))')
    # ---- who may reset / reassign a region stack: constructors, move operations, next_iteration - and private helpers that are
    # only called from those (an extracted common tail)
    allowed = {f.key for f in fns if f.kind in ('ctor', 'move-ctor', 'move-assign') or f.short == 'next_iteration'}
    callers = {}
    for g in fns:
        for e, t in flow.call_events(g):
            if t.get('cls') == g.cls and t.get('key') != g.key:
                callers.setdefault(t.get('key'), set()).add(g.key)
    changed = True
    while changed:
        changed = False
        for g in fns:
            if g.key not in allowed and callers.get(g.key) and callers[g.key] <= allowed:
                allowed.add(g.key)
                changed = True
    for f in fns:
        if f.key in allowed:
            continue
        bad = [t for e, t in flow.call_events(f) if t.get('short') in ('unwind', 'operator=') and 'stacks_' in sym.canon(t.get('recv') or {})]
        if bad:
            run.violation('R-ITER', '%s [%s]' % (f.display, db.config), f.loc, '`%s` resets a region outside next_iteration' % tstr(bad[0])[:80],
                          site={'function': CT + '::' + f.short, 'role': 'who may reset a region'})
    # ---- try_allocate: same index for stack and end
    for f in by.get('try_allocate', []):
        inst = '%s [%s]' % (f.display, db.config)
        S = [s for s in fwd.summarize(f, roles={}, no_forward=True) if s.end == 'return']
        good = True
        for s in S:
            al = [c for c in s.calls if c[1].get('short') == 'allocate']
            if len(al) != 1 or not norm_end(al[0][0]).startswith('this.stacks_[this.cur_].allocate(this.block_end(this.cur_),'):
                good = False
        if good:
            run.ok('R-BOUND', inst, f.loc, 'stacks_[cur_].allocate(block_end(cur_), ...)')
        else:
            run.violation('R-BOUND', inst, f.loc, 'try_allocate does not bound stacks_[cur_] by block_end(cur_)',
                          site={'function': CT + '::try_allocate', 'role': 'same region'})
    c01.check_bound(run, db, by.get('allocate', []), rule='R-BOUND',
                    end_pred=lambda rest: _is_region_end({a for a in rest if a}))


def run(run):
    run.rule('R-TERM.start', 'region start after construction == block_start(i) as terms', floor=4)
    run.rule('R-TERM.tile', 'block_end(i) == block_start(i+1); block_start = base + floor(i*size/N)', floor=4)
    run.rule('R-ITER', 'next_iteration: cyclic successor, reset exactly that region; nobody else resets', floor=4)
    run.rule('R-BOUND', 'allocate/try_allocate use the end of the same region', floor=8)
    run.rule('R-ITER.move', 'the iteration index travels with the block and the region stacks through move construction and move assignment', floor=2)
    run.explanation = ('Region boundaries are compared as terms symbolic in i and N; the instantiation matrix (N = 1..5, three block sources) only guards '
                       'against N-dependent specialisations. "Valid for exactly N iterations" over histories is not decided.')
    n = 0
    for cfg in common.configs(run):
        db = build.load_db(cfg, log=run.log)
        for cls, fns in sorted(by_inst(db).items()):
            if not any(f.kind == 'ctor' for f in fns):
                continue
            n += 1
            check_instance(run, db, cls, fns)
        # the current iteration belongs to the block: an allocator that takes over another one's regions but keeps its own index resets
        # the newest region at the next iteration (coverage / source-reset rules of C12, restricted to this class)
        from rules import c12, c05
        rr = c05._Renamed(run, 'R-ITER.move')
        for cls, ops in sorted(c12.classes_with_moves(db).items()):
            if cls in db.classes and cls_template(cls) == CT:
                c12.check_coverage(rr, db, cls, ops)
                c12.check_emptiness(rr, db, cls, ops)
    run.count('instantiations', n)
    if n < 4:
        run.broke('iteration_allocator instantiations with constructors: %d' % n)
