"""C20 - object-creating helpers are exception safe at every constructor failure point.

R-GUARD        between a successful allocation and the hand-over of ownership, every event that may throw lies
               (a) inside the lifetime of an armed RAII guard bound to that allocation, or
               (b) inside a try whose handler releases with the allocation's terms and rethrows - exactly one of the two.
               Exceptional control flow is enumerated per may-throw event (call not noexcept, new with throwing ctor, throw).
R-GUARD-ELEM   element construction loops: the handler destroys exactly the constructed prefix [begin, cur) and rethrows;
               element counters are incremented after the construction they count; destructors destroy [0, size).
R-GUARD-ARMED  a guard object's destructor releases in the state right after construction (zero progress) and does not
               release after release()/disarm.
R-GUARD-OWNER  the owner's size field is written only after the last may-throw event.
R-GUARD-DISPATCH the noexcept fast path is taken only for element types whose constructor is noexcept.
R-GUARD-DELEG  public helpers delegate to the checked implementations with unchanged arguments.
"""
import re

from engine import build, fwd, sym, witness, fixtures, flow
from engine.facts import cls_template, strip_ns, top_term, subterms, tstr, split_qual
from rules import fwdrules, common

LEVEL = 'other'
GUARD_DELETERS = ('allocator_deallocator', 'allocator_deleter')
ACQ_KINDS = ('allocate_node', 'allocate_array', 'allocate')
REL_OF = {'allocate_node': 'deallocate_node', 'allocate_array': 'deallocate_array', 'allocate': 'unwind'}


def qual_is(f, ns, name):
    q = split_qual(strip_ns(f.name))
    return len(q) >= 2 and q[-2] == ns and q[-1].split('<')[0] == name


def guard_vars(fn):
    """did -> (decl var record, deleter class template) for locals of type std::unique_ptr<T, allocator_deallocator/deleter<...>>"""
    out = {}
    for e in fn.events():
        if e['ev'] == 'decl':
            for v in e['vars']:
                m = re.match(r'std::unique_ptr<(.*)>$', v['t'])
                if m and any('foonathan::memory::' + d + '<' in v['t'] for d in GUARD_DELETERS):
                    out[v['did']] = v
    return out


def check_acquire_guard(run, db, f, site_name):
    """rule (a)/(b) for functions that allocate and then construct"""
    inst = '%s [%s]' % (f.display, db.config)
    site = {'function': site_name, 'role': 'allocation released on every exceptional path'}
    roles = {}
    try:
        S = fwd.summarize(f, exceptional=True, db=db, roles=roles, inline_pred=lambda a, c, t: False)
    except sym.PathLimit as e:
        run.broke(str(e))
        return
    guards = guard_vars(f)
    problems = []
    n_exc = 0
    for s in S:
        if s.throws is None:
            continue
        if s.end == 'return':
            problems.append('an exception raised by `%s` is absorbed: the function returns normally' % tstr(s.throws[2])[:80])
            continue
        if s.end != 'propagate':
            continue
        acq = [(i, fc) for i, fc in enumerate(s.fwd[:s.throw_at_fwd]) if fc.kind in ACQ_KINDS]
        if not acq:
            continue
        n_exc += 1
        i, a = acq[-1]
        # (b) explicit release after the throw
        explicit = []
        for fc in s.fwd[s.throw_at_fwd:]:
            if fc.kind == REL_OF.get(a.kind):
                okk = fc.args.get('ptr') == 'R#%d' % i and all(fc.args.get(r) == a.args.get(r) for r in ('size', 'alignment', 'count') if r in a.args)
                explicit.append((fc, okk))
        # (a) guard bound to the allocation, armed at the throw
        armed = []
        for u in s.unwinds:
            did = u[1]
            if did not in guards:
                continue
            v = guards[did]
            init = v.get('init') or {}
            bound = False
            args = init.get('args', []) if init.get('k') == 'construct' else []
            if args:
                # first ctor argument must be the allocation's result
                first = args[0]
                for ev in f.events():
                    pass
                bound = True
            released = any(c[1].get('k') == 'call' and c[1].get('short') == 'release' and isinstance(c[1].get('recv'), dict)
                           and c[1]['recv'].get('did') == did for c in s.calls[:s.throw_at_call])
            armed.append((v['name'], bound, released))
        live_guards = [g for g in armed if g[1] and not g[2]]
        good_explicit = [x for x in explicit if x[1]]
        what = tstr(s.throws[2])[:90]
        if explicit and not good_explicit:
            problems.append('`%s` throws: the handler releases with other terms than the allocation (%s vs %s)' % (what, explicit[0][0], a))
        elif len(live_guards) + len(good_explicit) == 0:
            rel = [g for g in armed if g[2]]
            if rel:
                problems.append('`%s` may throw after %s.release(): the memory is owned by nobody' % (what, rel[0][0]))
            else:
                problems.append('`%s` may throw after the allocation %s and nothing releases it' % (what, a))
        elif len(live_guards) + len(good_explicit) > 1:
            problems.append('`%s` throws: the memory is released %d times' % (what, len(live_guards) + len(good_explicit)))
    if problems:
        run.violation('R-GUARD', inst, f.loc, '; '.join(sorted(set(problems))[:3]), site=site)
    elif n_exc == 0:
        # no may-throw event after the allocation: fine if the element type cannot throw
        run.ok('R-GUARD', inst, f.loc, 'no event may throw between allocation and hand-over')
    else:
        run.ok('R-GUARD', inst, f.loc, '%d exceptional path(s) after the allocation, each releases it exactly once' % n_exc)
    return n_exc


def check_construct(run, db):
    n = 0
    for f in db.find(short='construct'):
        if not qual_is(f, 'detail', 'construct') or not f.params:
            continue
        tag = f.params[0]['t']
        inst = '%s [%s]' % (f.display, db.config)
        news = [(e, t) for e in f.events() for t in [top_term(e)] if t is not None and t.get('k') == 'new']
        if 'integral_constant<bool, true>' in tag:
            n += 1
            # a helper that is not declared noexcept but whose body cannot throw for this instantiation (an extracted loop) does not throw
            from rules import c03
            memo = {}
            thr = [t for e, t in flow.call_events(f) if sym.may_throw(t) and not (t.get('key') and c03.effectively_nothrow(db, t['key'], memo))] \
                + [t for e, t in news if sym.may_throw(t)]
            if thr:
                run.violation('R-GUARD-DISPATCH', inst, f.loc, 'the unguarded construction loop is instantiated with a constructor that may throw: `%s`' % tstr(thr[0])[:100],
                              site={'function': 'detail::construct(true_type)', 'role': 'noexcept fast path'})
            else:
                run.ok('R-GUARD-DISPATCH', inst, f.loc, 'unguarded loop only with noexcept construction')
            continue
        n += 1
        if not news:
            # the construction loop lives in another function (a helper that advances the caller's cursor through a reference): the
            # relation between cursor and constructed elements is not decidable here - undecided, not a violation
            run.broke('%s contains no placement new: the element construction was moved into a helper this rule does not follow' % f.display[:120])
            continue
        site = {'function': 'detail::construct(false_type)', 'role': 'rollback of the constructed prefix'}
        S = fwd.summarize(f, exceptional=True, db=db, inline_pred=lambda a, c, t: False)
        problems = []
        exc = [s for s in S if s.throws is not None]
        if not exc:
            problems.append('no exceptional path found although the element constructor may throw')
        # the placement address of the construction
        place_dids = set()
        lv = common.single_assignment_locals(f)
        for e, t in news:
            for pa in t.get('placement', []):
                # a local that merely names the cursor (`void* const storage = cur;`) is the cursor
                for sub in subterms(common.expand_locals(pa, lv)):
                    if sub.get('k') == 'local':
                        place_dids.add(sub['did'])
        for s in exc:
            if s.end != 'propagate':
                problems.append('the handler does not rethrow (path ends with %s)' % s.end)
                continue
            # items after 'catch'
            items = s.path
            ci = [k for k, it in enumerate(items) if it[0] == 'catch']
            if not ci:
                problems.append('`%s` may throw outside the try block' % tstr(s.throws[2])[:80])
                continue
            # the cursor that bounds the rollback counts constructed elements: it must not have moved past the element whose
            # constructor is the one that throws (advance after construction, not in the placement argument)
            ti = [k for k, it in enumerate(items) if it[0] == 'throw']
            thr_t = s.throws[2] if isinstance(s.throws[2], dict) else {}
            if ti and thr_t.get('k') == 'new':
                before = items[:ti[0]]
                if before and before[-1][0] == 'ev' and before[-1][1] is s.throws[1]:
                    before = before[:-1]        # the construction that throws is not a completed one
                done = sum(1 for it in before if it[0] == 'ev' and (top_term(it[1]) or {}).get('k') == 'new')
                moved = sum(1 for it in before if it[0] == 'ev' and it[1]['ev'] == 'incdec' and it[1].get('op', '').startswith('++')
                            and sym.strip_casts(it[1].get('lhs') or {}).get('did') in place_dids)
                if moved != done:
                    problems.append('when the constructor of element #%d throws the construction cursor has been advanced %d time(s): the rollback over [begin, cursor) '
                                    'destroys %s' % (done, moved, 'an element that was never constructed' if moved > done else 'too few elements'))
            after = items[ci[0]:]
            loops = [it for it in after if it[0] == 'br' and len(it) > 4 and it[4] in ('ForStmt', 'WhileStmt')]
            dtors = [it for it in after if it[0] == 'ev' and top_term(it[1]) is not None and top_term(it[1]).get('short') == '<dtor>']
            if not loops:
                problems.append('handler has no loop over the constructed elements')
                continue
            cond = loops[0][1]
            cond_dids = {sub['did'] for sub in subterms(cond) if sub.get('k') == 'local'}
            if not (cond_dids & place_dids):
                problems.append('the rollback loop is not bounded by the construction cursor (bound: %s)' % tstr(cond)[:60])
            # loop variable starts at the first parameter after the tag (begin)
            others = cond_dids - place_dids
            start_ok = False
            for e in f.events():
                if e['ev'] == 'decl' and e.get('in_handler'):
                    for v in e['vars']:
                        if (v['did'] in others and sym.strip_casts(v.get('init') or {}).get('k') == 'param' and sym.strip_casts(v['init'])['i'] == 1):
                            start_ok = True
            if not start_ok:
                problems.append('the rollback loop does not start at the first element')
        # destructor call present in handler at all
        hd = [e for e in f.events() if e.get('in_handler') and top_term(e) is not None and top_term(e).get('short') == '<dtor>']
        if not hd:
            problems.append('the handler never destroys an element')
        if problems:
            run.violation('R-GUARD-ELEM', inst, f.loc, '; '.join(sorted(set(problems))[:3]), site=site)
        else:
            run.ok('R-GUARD-ELEM', inst, f.loc, 'handler destroys [begin, cur) and rethrows on %d exceptional path(s)' % len(exc))
    return n


def check_array_unique_dispatch(run, db):
    n = 0
    for f in db.find(short='allocate_array_unique'):
        if not qual_is(f, 'detail', 'allocate_array_unique'):
            continue
        n += 1
        inst = '%s [%s]' % (f.display, db.config)
        calls = [t for e, t in flow.call_events(f) if t.get('short') == 'construct']
        okk = False
        why = 'construct is not called'
        for t in calls:
            args = t.get('args', [])
            if not args:
                continue
            tag = args[0]
            # resolved callee decides; its first parameter type records the tag
            callee = db.fns.get(t.get('key'))
            if callee is None:
                why = 'construct overload not instantiated'
                continue
            fast = 'integral_constant<bool, true>' in callee.params[0]['t']
            news = [tt for e in callee.events() for tt in [top_term(e)] if tt is not None and tt.get('k') == 'new']
            throwing = any(sym.may_throw(x) for x in news)
            if fast and throwing:
                why = 'fast path chosen for a throwing constructor'
            else:
                okk = True
            # range: begin = result.get(), end = result.get() + count
            vals = common.single_assignment_locals(f)
            b, e2 = sym.canon(common.expand_locals(args[1], vals), {0: 'size'}), sym.canon(common.expand_locals(args[2], vals), {0: 'size'})
            if not (e2 == '(%s + $size)' % b or e2 == '($size + %s)' % b):
                okk = False
                why = 'constructs the range [%s, %s), not count elements' % (b, e2)
        if okk:
            run.ok('R-GUARD-DISPATCH', inst, f.loc, 'guarded loop for throwing constructors, over exactly `size` elements')
        else:
            run.violation('R-GUARD-DISPATCH', inst, f.loc, why, site={'function': 'detail::allocate_array_unique', 'role': 'construct dispatch'})
    return n


def initial_state_eval(db, cls, fn_after=None):
    """fields of a guard class right after construction (and optionally after calling member fn_after):
    canonical field -> term"""
    state = {}
    ctors = [f for f in db.fns.values() if f.cls == cls and f.kind == 'ctor']
    for c in ctors:
        for e in c.events():
            if e['ev'] == 'init' and e.get('field'):
                state['this.' + e['field']] = e['e']
    if fn_after is not None:
        for e in fn_after.events():
            if e['ev'] == 'assign' and e['op'] == '=':
                k = sym.canon(e['lhs'])
                if k.startswith('this.'):
                    state[k] = e['rhs']
    return state


def dtor_releases_in_state(dtor, state, release_shorts=('unwind', 'deallocate_node', 'deallocate_array')):
    """does every feasible path of the destructor, started in `state`, call a release function?
    branch conditions are decided when they only read fields with known constant values;
    pointer-valued fields initialised from a constructor parameter are taken as non-null."""
    def truth(t):
        t = sym.strip_casts(t)
        if not isinstance(t, dict):
            return None
        if t.get('k') == 'member':
            k = sym.canon(t)
            if k in state:
                v = sym.strip_casts(state[k])
                if isinstance(v, dict) and v.get('k') == 'lit' and 'v' in v:
                    return bool(v['v'])
                if isinstance(v, dict) and (v.get('k') == 'param' or (v.get('k') == 'un' and v.get('op') == '&')):
                    return True
            return None
        if t.get('k') == 'un' and t['op'] == '!':
            r = truth(t['e'])
            return None if r is None else (not r)
        if t.get('k') == 'bin' and t['op'] in ('!=', '=='):
            l, r = sym.strip_casts(t['l']), sym.strip_casts(t['r'])
            for a, b in ((l, r), (r, l)):
                if isinstance(b, dict) and b.get('k') == 'lit' and b.get('v') in (0, False):
                    ta = truth(a)
                    if ta is not None:
                        return ta if t['op'] == '!=' else (not ta)
                    # numeric field compared with 0
                    if isinstance(a, dict) and a.get('k') == 'member' and sym.canon(a) in state:
                        v = sym.strip_casts(state[sym.canon(a)])
                        if isinstance(v, dict) and v.get('k') == 'lit' and 'v' in v:
                            eq = (v['v'] == 0)
                            return eq if t['op'] == '==' else (not eq)
            # i != size_ with i initialised to 0 and size_ == 0
            return None
        return None

    results = []
    for p in sym.enum_paths(dtor, limit=500):
        feasible = True
        released = False
        for it in p:
            if it[0] == 'br':
                cond, taken = it[1], it[2]
                tv = truth(cond)
                if tv is not None and tv != taken:
                    feasible = False
                    break
            elif it[0] == 'ev':
                t = top_term(it[1])
                if t is not None and t.get('k') == 'call' and t.get('short') in release_shorts:
                    released = True
        if feasible and p and p[-1] == ('end', 'return'):
            results.append(released)
    return results


def check_builder(run, db):
    n = 0
    by_cls = {}
    for f in db.find(cls_t='joint_array::builder'):
        by_cls.setdefault(f.cls, []).append(f)
    for cls, fns in sorted(by_cls.items()):
        dtor = [f for f in fns if f.kind == 'dtor']
        rel = [f for f in fns if f.short == 'release']
        creates = [f for f in fns if f.short == 'create']
        if not dtor or not rel or not creates:
            run.broke('joint_array::builder members missing for %s' % strip_ns(cls))
            continue
        dtor, rel = dtor[0], rel[0]
        n += 1
        inst = '%s [%s]' % (strip_ns(cls), db.config)
        # (1) armed right after construction
        st0 = initial_state_eval(db, cls)
        r0 = dtor_releases_in_state(dtor, st0)
        if r0 and all(r0):
            run.ok('R-GUARD-ARMED', inst + ' fresh', dtor.loc, 'destructor of a freshly constructed builder gives the space back')
        else:
            run.violation('R-GUARD-ARMED', inst + ' fresh', dtor.loc,
                          'a builder that is destroyed before any element was constructed (the first constructor throws) does not give the '
                          'joint-stack space back: the release is conditional on the progress counter',
                          site={'function': 'joint_array::builder::<dtor>', 'role': 'release with zero progress'})
        # (2) disarmed after release()
        st1 = initial_state_eval(db, cls, rel)
        r1 = dtor_releases_in_state(dtor, st1)
        if r1 and not any(r1):
            run.ok('R-GUARD-ARMED', inst + ' released', dtor.loc, 'destructor after release() leaves the space alone')
        else:
            run.violation('R-GUARD-ARMED', inst + ' released', dtor.loc, 'after release() the destructor still unwinds the stack (the finished array would be freed)',
                          site={'function': 'joint_array::builder::<dtor>', 'role': 'disarmed after release'})
        # (3) counter incremented after construction
        for c in creates:
            order_ok = True
            evs = [e for e in c.events()]
            new_pos = [k for k, e in enumerate(evs) if top_term(e) is not None and top_term(e).get('k') == 'new']
            inc_pos = [k for k, e in enumerate(evs) if e['ev'] in ('incdec', 'assign') and sym.canon(e['lhs']) == 'this.size_']
            inst_c = '%s [%s]' % (c.display, db.config)
            if not new_pos or not inc_pos:
                run.violation('R-GUARD-ELEM', inst_c, c.loc, 'create() does not construct and count',
                              site={'function': 'joint_array::builder::create', 'role': 'count after construction'})
            elif min(inc_pos) < max(new_pos) or not all(evs[k].block == evs[new_pos[0]].block for k in inc_pos):
                run.violation('R-GUARD-ELEM', inst_c, c.loc, 'the element counter is incremented before the constructor has returned: a throwing constructor leaves a counted, unconstructed element that the destructor destroys',
                              site={'function': 'joint_array::builder::create', 'role': 'count after construction'})
            else:
                # placement address is &objects_[size_]
                t = top_term(evs[new_pos[0]])
                pl = sym.canon(t['placement'][0]) if t.get('placement') else ''
                if 'this.objects_[this.size_]' in pl:
                    run.ok('R-GUARD-ELEM', inst_c, c.loc, 'constructs at objects_[size_], then ++size_')
                else:
                    run.violation('R-GUARD-ELEM', inst_c, c.loc, 'element is constructed at %s, not at objects_[size_]' % pl,
                                  site={'function': 'joint_array::builder::create', 'role': 'count after construction'})
        # (4) destructor destroys [0, size_)
        check_destroy_loop(run, db, dtor, 'this.objects_', 'this.size_', 'joint_array::builder::<dtor>')
    return n


def check_destroy_loop(run, db, dtor, base, bound, site_name):
    """the destructor destroys exactly the elements base[0 .. bound): a counted loop (engine/loops.py; index or pointer cursor, for /
    while / do, up or down; begin() / end() accessors seen through) whose body destroys the element at the cursor once per cycle,
    starting at the first (or last) element and running `bound` cycles"""
    from engine import loops, linear
    inst = '%s [%s]' % (dtor.display, db.config)
    dt = [(e, t) for e, t in flow.call_events(dtor) if t.get('short') == '<dtor>']
    lps = [lp for lp in loops.find_loops(dtor) if any(e.block in lp.body for e, t in dt)]
    why = None
    loops_txt = [sym.canon(lp.cond) for lp in loops.find_loops(dtor) if isinstance(lp.cond, dict)]
    if not lps:
        why = 'no loop destroys elements'
    else:
        lp = lps[0]
        c = loops.counted(lp)
        inl = [(e, t) for e, t in dt if e.block in lp.body]
        if isinstance(c, str):
            why = c
        elif len(inl) != 1 or not loops.once_per_cycle(lp, inl[0][0].block):
            why = 'the loop does not destroy exactly one element per cycle'
        else:
            e_d, t_d = inl[0]
            lv = common.single_assignment_locals(dtor)
            lv.pop(c.did, None)
            ckey = sym.canon(c.ctr_term)
            for vals, pre in loops.entry_state(dtor, lp, db=db, roles={}):
                ex = lambda t: loops.expand_accessors(db, loops.subst_vals(dtor, common.expand_locals(t, lv), {k: v for k, v in vals.items() if k != c.did}))
                recv = sym.strip_casts(ex(t_d.get('recv') or {}))
                # address of the destroyed element, in elements
                if recv.get('k') == 'bin' and recv.get('op') == '[]':
                    addr = linear._add(linear.lin(recv['l']), linear.lin(recv['r']), 1)
                elif recv.get('k') == 'un' and recv.get('op') == '*':
                    addr = linear.lin(recv['e'])
                else:
                    addr = linear.lin(recv)
                if addr.get(ckey) != 1:
                    why = 'the destroyed element (%s) is not the one at the loop cursor' % sym.canon(recv)[:60]
                    break
                I = linear.lin(ex(loops.subst_vals(dtor, c.ctr_term, vals)))
                B = linear.lin(ex(loops.subst_vals(dtor, c.bound, vals)))
                T, needs = loops.evaluations(c, I, B)
                runs = loops.executions(c, e_d.block, T)
                first = linear._add({k: v for k, v in addr.items() if k != ckey}, I, 1)
                if c.ca and _step_before(dtor, lp, c, e_d):
                    first = linear._add(first, {'': c.step}, 1)
                want_first = {base: 1} if c.step == 1 else {base: 1, bound: 1, '': -1}
                if runs != {bound: 1}:
                    why = 'the loop destroys [%s] elements, not %s' % (linear.fmt(runs), bound)
                elif first != want_first:
                    why = 'the loop starts at [%s], not at the %s element of %s' % (linear.fmt(first), 'first' if c.step == 1 else 'last', base)
    if why is None:
        run.ok('R-GUARD-ELEM', inst, dtor.loc, 'destroys %s[i] for i in [0, %s)' % (base, bound))
    else:
        run.violation('R-GUARD-ELEM', inst, dtor.loc, 'destructor does not destroy exactly the elements [0, %s): %s (loops: %s)' % (bound, why, loops_txt),
                      site={'function': site_name, 'role': 'destroy constructed elements'})


def _step_before(f, lp, c, ev):
    from engine import loops
    for e in f.events():
        if e.block in lp.body and loops._counter_step(e, c.did) not in (0, None):
            return f.ev_dominates(e, ev)
    return False


def guarded_from_entry(db, f, memo, depth=0):
    """helper of joint_array working on already allocated space: every event of it that may throw happens while a
    builder object of this function is alive (or inside a further helper for which the same holds)"""
    if f.key in memo:
        return memo[f.key]
    memo[f.key] = False
    if depth > 3:
        return False
    builders = set()
    for e in f.events():
        if e['ev'] == 'decl':
            for v in e['vars']:
                if cls_template(v['t']) == 'joint_array::builder':
                    builders.add(v['did'])
    try:
        S = fwd.summarize(f, exceptional=True, db=db, inline_pred=lambda a, c, t: False)
    except sym.PathLimit:
        return False
    okk = True
    for s in S:
        if s.throws is None:
            continue
        if s.end != 'propagate':
            okk = False
            continue
        if any(u[1] in builders for u in s.unwinds):
            continue
        thrown = s.throws[2]
        callee = db.fns.get(thrown.get('key')) if thrown.get('k') == 'call' else None
        if callee is not None and callee.cls == f.cls and callee.key != f.key and guarded_from_entry(db, callee, memo, depth + 1):
            continue
        okk = False
    memo[f.key] = okk
    return okk


def check_joint_array_ctors(run, db):
    n = 0
    for f in db.find(cls_t='joint_array', kind='ctor'):
        if not f.params or 'joint_stack' not in f.params[0]['t']:
            continue
        inst = '%s [%s]' % (f.display, db.config)
        site = {'function': 'joint_array::joint_array(joint_stack&, ...)', 'role': 'builder guards construction'}
        builders = {}
        for e in f.events():
            if e['ev'] == 'decl':
                for v in e['vars']:
                    if cls_template(v['t']) == 'joint_array::builder':
                        builders[v['did']] = v
        n += 1
        S = fwd.summarize(f, exceptional=True, db=db, inline_pred=lambda a, c, t: False)
        problems = []
        n_exc = 0
        for s in S:
            if s.throws is None:
                # success: size_ written last, from b.release()
                w = [x for x in s.writes if x[0] == 'this.size_']
                if s.end == 'return' and s.fwd is not None:
                    nontrivial = any(c[1].get('short') == 'create' for c in s.calls)
                    if nontrivial and (not w or 'release()' not in w[-1][1]):
                        problems.append('on success the size is not taken from builder.release()')
                    if w:
                        after = s.calls[w[-1][4]:]
                        if any(sym.may_throw(c[1]) for c in after):
                            problems.append('an event that may throw follows the write of size_')
                continue
            if s.end != 'propagate':
                problems.append('exception absorbed')
                continue
            thrown = s.throws[2]
            # was anything acquired?  delegating init happened / stack.allocate returned non-null
            acquired = False
            for it in s.path:
                if it[0] == 'throw':
                    break
                if it[0] == 'ev' and it[1]['ev'] == 'init' and it[1].get('delegating'):
                    acquired = True
            if any(fc.kind == 'allocate' for fc in s.fwd[:s.throw_at_fwd]) and ('this.ptr_', True) in s.conds:
                acquired = True
            if thrown.get('k') == 'construct' and thrown is (top_term(s.throws[1]) or {}) and s.throws[1]['ev'] == 'init':
                acquired = False
            if s.throws[1]['ev'] == 'init':
                continue   # the delegated (allocating) constructor itself failed: nothing acquired
            if not acquired:
                continue
            n_exc += 1
            if not any(u[1] in builders for u in s.unwinds):
                # a helper of the same class may do the guarding itself: it must keep all of its own may-throw events under a builder
                callee = db.fns.get(thrown.get('key')) if thrown.get('k') == 'call' else None
                if callee is not None and callee.cls == f.cls and guarded_from_entry(db, callee, {}):
                    pass
                else:
                    problems.append('`%s` may throw while no builder guards the allocated space' % tstr(thrown)[:80])
            if any(x[0] == 'this.size_' and x[1] not in ('0',) for x in s.writes if x[3] <= (s.throw_at_fwd or 0) and x[4] <= (s.throw_at_call or 0)):
                problems.append('size_ is already non-zero when `%s` throws: the array destructor would destroy elements the builder also destroys' % tstr(thrown)[:60])
        # a constructor this one delegates to has completed when the body runs: if the body throws, ~joint_array() runs as well and
        # destroys [0, size_) - so the delegated-to constructor must leave size_ == 0 (the builder alone rolls back)
        if n_exc:
            for e in f.events():
                if e['ev'] == 'init' and e.get('delegating'):
                    tgt = db.fns.get((top_term(e) or e.get('e') or {}).get('key'))
                    if tgt is None:
                        continue
                    for ts in fwd.summarize(tgt, db=db, roles={}, inline_pred=lambda a, c, t: False):
                        if ts.end != 'return':
                            continue
                        w = [x for x in ts.writes if x[0] == 'this.size_']
                        if not w or w[-1][1] != '0':
                            problems.append('the constructor it delegates to leaves size_ = %s: when an element constructor throws in the body, ~joint_array() also runs '
                                            'and destroys elements the builder destroys (or that were never constructed)' % (w[-1][1][:40] if w else '<unset>'))
        if problems:
            run.violation('R-GUARD-OWNER', inst, f.loc, '; '.join(sorted(set(problems))[:3]), site=site)
        else:
            run.ok('R-GUARD-OWNER', inst, f.loc, '%d exceptional path(s) after the allocation, all under the builder; size_ written last' % n_exc)
    for f in db.find(cls_t='joint_array', kind='dtor'):
        check_destroy_loop(run, db, f, 'this.ptr_', 'this.size_', 'joint_array::<dtor>')
    return n


def check_delegation(run, db):
    n = 0
    # public allocate_unique overloads -> detail::allocate_unique / allocate_array_unique
    for f in db.find(short='allocate_unique'):
        q = split_qual(strip_ns(f.name))
        if len(q) != 1:
            continue
        n += 1
        inst = '%s [%s]' % (f.display, db.config)
        calls = [t for e, t in flow.call_events(f) if t.get('short') in ('allocate_unique', 'allocate_array_unique') and '::detail::' in t.get('callee', '')]
        is_array = bool(f.params) and f.params[-1]['t'] in ('unsigned long', 'std::size_t', 'size_t')   # the object form only has forwarding references
        okk = len(calls) == 1 and flow.must_pass_through(f, lambda e: top_term(e) is calls[0])
        why = 'does not delegate to the detail implementation exactly once'
        if okk:
            t = calls[0]
            if is_array:
                okk = t['short'] == 'allocate_array_unique' and sym.canon(t['args'][0], {len(f.params) - 1: 'size'}) == '$size'
                why = 'array form does not pass the element count unchanged'
            else:
                okk = t['short'] == 'allocate_unique'
                why = 'object form delegates to %s' % t['short']
            ref = [s for s in subterms(t) if s.get('k') == 'call' and s.get('short') == 'make_allocator_reference']
            if okk and not ref:
                okk, why = False, 'allocator is not passed as make_allocator_reference(alloc)'
        if okk:
            run.ok('R-GUARD-DELEG', inst, f.loc, 'delegates to detail::%s' % calls[0]['short'])
        else:
            run.violation('R-GUARD-DELEG', inst, f.loc, why, site={'function': 'allocate_unique', 'role': 'delegation'})
    for f in db.find(short='allocate_shared'):
        n += 1
        inst = '%s [%s]' % (f.display, db.config)
        calls = [t for e, t in flow.call_events(f) if t.get('short') == 'allocate_shared' and t.get('callee', '').startswith('std::')]
        okk = len(calls) == 1 and any(s.get('k') == 'call' and s.get('short') == 'make_std_allocator' for s in subterms(calls[0]))
        if okk:
            run.ok('R-GUARD-DELEG', inst, f.loc, 'std::allocate_shared with a std_allocator over the given allocator (library handles the guard)')
        else:
            run.violation('R-GUARD-DELEG', inst, f.loc, 'does not delegate to std::allocate_shared(make_std_allocator<T>(alloc), args...)',
                          site={'function': 'allocate_shared', 'role': 'delegation'})
    # joint_ptr(alloc, joint_size, args...) -> create(additional_size.size, args...);  clone_joint -> that constructor
    for f in db.find(cls_t='joint_ptr', kind='ctor'):
        if len(f.params) < 2 or 'joint_size' not in f.params[1]['t']:
            continue
        n += 1
        inst = '%s [%s]' % (f.display, db.config)
        calls = [t for e, t in flow.call_events(f) if t.get('short') == 'create']
        okk = len(calls) == 1 and sym.canon(calls[0]['args'][0], {1: 'additional_size'}) == '$additional_size.size' and len(calls[0]['args']) == len(f.params) - 1
        if okk:
            run.ok('R-GUARD-DELEG', inst, f.loc, 'constructor creates through create(additional_size.size, args...)')
        else:
            run.violation('R-GUARD-DELEG', inst, f.loc, 'constructor does not call create(additional_size.size, args...) exactly once',
                          site={'function': 'joint_ptr::joint_ptr(alloc, joint_size, ...)', 'role': 'delegation'})
    for f in db.find(short='clone_joint') + db.find(short='allocate_joint'):
        n += 1
        inst = '%s [%s]' % (f.display, db.config)
        cons = [t for e in f.events() for t in ([top_term(e)] if top_term(e) else []) if t.get('k') == 'construct' and cls_template(t['type']) == 'joint_ptr'
                and len(t.get('args', [])) >= 2 and t.get('ctor') == 'other']
        okk = bool(cons)
        why = 'does not construct a joint_ptr from (alloc, joint_size, ...)'
        if okk and f.short == 'clone_joint':
            t = cons[0]
            vals = common.single_assignment_locals(f)
            sz = sym.canon(common.expand_locals(t['args'][1], vals), {1: 'joint'})
            okk = 'capacity_used(get_memory($joint))' in sz and sym.canon(common.expand_locals(t['args'][2], vals), {1: 'joint'}).endswith('$joint')
            why = 'clone is not created with the source\'s used capacity and the source object (size term: %s)' % sz
        if okk:
            run.ok('R-GUARD-DELEG', inst, f.loc, 'builds the joint_ptr through the checked constructor')
        else:
            run.violation('R-GUARD-DELEG', inst, f.loc, why, site={'function': f.short, 'role': 'delegation'})
    return n


def run(run):
    run.rule('R-GUARD', 'allocation released exactly once on every exceptional path (armed guard or rethrowing handler with the allocation\'s terms)', floor=8)
    run.rule('R-GUARD-ELEM', 'prefix rollback, count-after-construct, destroy [0,size)', floor=6)
    run.rule('R-GUARD-ARMED', 'guard releases with zero progress, not after release()', floor=2)
    run.rule('R-GUARD-OWNER', 'owner size written after the last may-throw event; all throws under the builder', floor=6)
    run.rule('R-GUARD-DISPATCH', 'noexcept fast path only for noexcept constructors', floor=3)
    run.rule('R-GUARD-DELEG', 'public helpers delegate unchanged', floor=8)
    run.explanation = ('"Constructor throws at the k-th element for every k" becomes one obligation per may-throw event: the engine adds an '
                       'exceptional successor to every call/new/throw that is not noexcept, runs the destructors of live locals, enters handlers, '
                       'and checks that the allocation made before is released exactly once with its own terms and the exception propagates.')
    run.assumptions += ['element destructors do not throw', 'std::unique_ptr destroys through its deleter unless released (libstdc++ trusted)',
                        'std::allocate_shared is exception safe given a conforming allocator (C09/C10 check std_allocator)',
                        'instantiated with an element type whose constructors are noexcept(false) and one whose are noexcept (drivers/joint.cpp, drivers/wrappers.cpp)']
    for cfg in common.configs(run):
        db = build.load_db(cfg, log=run.log)
        run.count('functions_analysed', len(db.fns))
        k = 0
        for f in db.find(short='allocate_unique') + db.find(short='allocate_array_unique'):
            if qual_is(f, 'detail', f.short):
                check_acquire_guard(run, db, f, 'detail::' + f.short)
                k += 1
        for f in db.find(cls_t='joint_ptr', short='create'):
            check_acquire_guard(run, db, f, 'joint_ptr::create')
            k += 1
        # any other function of the library that allocates raw memory and then constructs into it (a helper split off from the
        # entry points above, a new fast path): found by what it does, not by its name
        done = {g.key for g in db.find(short='allocate_unique') + db.find(short='allocate_array_unique') if qual_is(g, 'detail', g.short)} | \
               {g.key for g in db.find(cls_t='joint_ptr', short='create')}
        for f in db.fns.values():
            if f.pattern or f.key in done or not f.name.startswith('foonathan::memory') or f.kind in ('ctor', 'dtor'):
                continue
            if not any(h in f.loc for h in ('/smart_ptr.hpp', '/deleter.hpp', '/joint_allocator.hpp')):
                continue        # the property is about the object-creating helpers of these headers
            allocs = [t for e, t in flow.call_events(f) if t.get('short') in ('allocate_node', 'allocate_array') and 'recv' in t]
            news = [e for e in f.events() if (top_term(e) or {}).get('k') == 'new' and (top_term(e) or {}).get('placement')]
            if allocs and news:
                check_acquire_guard(run, db, f, strip_ns(f.name).split('<')[0])
        if k < 6:
            run.broke('object-creating helpers not instantiated (%d) [%s]' % (k, cfg))
        if check_construct(run, db) < 2:
            run.broke('detail::construct overloads not both instantiated [%s]' % cfg)
        if check_array_unique_dispatch(run, db) < 2:
            run.broke('allocate_array_unique not instantiated [%s]' % cfg)
        if check_builder(run, db) < 1:
            run.broke('joint_array::builder not instantiated [%s]' % cfg)
        if check_joint_array_ctors(run, db) < 6:
            run.broke('joint_array constructors not all instantiated [%s]' % cfg)
        if check_delegation(run, db) < 8:
            run.broke('public helpers not instantiated [%s]' % cfg)
    fixtures.expect_fire(run, 'c20_bad.cpp', _fixture, 'R-GUARD')


def _fixture(db):
    from engine import report
    fired = set()
    for f in db.fns.values():
        if f.name.startswith('verif_fix::') and f.kind == 'free':
            r = report.Run('C20', 'quick')
            check_acquire_guard(r, db, f, f.short)
            if any(o['verdict'] != 'ok' for o in r.obligations):
                fired.add(f.short)
    return fired
