"""C05 - every upstream block is returned exactly once, unchanged, in reverse order (structural clauses).

R-ARENA.pop     the result of memory_block_stack::pop() flows only into a deallocate_block call
R-ARENA.dtor    ~memory_arena drains the cache (shrink_to_fit) first, then the used stack, in a loop guarded by empty()
R-ARENA.alloc   allocate_block asks the block source only when take_from_cache failed; the new block is pushed after the
                call returned; on the exceptional edge of the upstream call nothing was written
R-ARENA.cache   deallocate_block moves exactly the top used block to the cache (cached) or returns it upstream (uncached)
R-ARENA.order   the cache is filled one block at a time from the used stack (oldest on top); shrink_to_fit flips it through a
                temporary stack before popping into deallocate_block, so blocks go upstream newest first
R-FWD.block     block sources: the block handed out is exactly what the upstream allocation returned (address, size) and
                deallocate_block releases with the block's own address/size and the same kind/alignment
R-THROW.7       no state write precedes the upstream call in any allocate_block
"""
import re

from engine import linear, build, fwd, sym, flow
from engine.facts import cls_template, strip_ns, top_term, subterms, tstr
from rules import common

LEVEL = 'other'
BLOCK_SOURCES = ('growing_block_allocator', 'fixed_block_allocator', 'detail::temporary_block_allocator')


BSTACK = 'detail::memory_block_stack'


def _is_stack_call(t, short):
    return isinstance(t, dict) and t.get('k') == 'call' and t.get('short') == short and cls_template(t.get('cls', '')) == BSTACK


def _returning_traces(f, db):
    return [p for p in fwd.trace(f, db=db, roles={}) if p and p[-1].get('kind') == 'end' and p[-1].get('end') == 'return']


def check_pop_sites(run, db):
    """every block popped off a block stack is, on every path that pops it, the argument of a later deallocate_block call (directly
    or through locals that merely name it)"""
    n = 0
    for f in db.fns.values():
        if f.pattern or not f.name.startswith('foonathan::memory') or cls_template(f.cls or '') == BSTACK:
            continue
        pops = {t.get('id'): t for e, t in flow.call_events(f) if _is_stack_call(t, 'pop')}
        if not pops:
            continue
        try:
            traces = _returning_traces(f, db)
        except sym.PathLimit as ex:
            run.broke(str(ex))
            continue
        lost = set()
        seen = set()
        for p in traces:
            popped = []
            for st in p:
                if st['kind'] != 'ev' or st['e'].get('ev') != 'expr':
                    continue
                t0 = top_term(st['e'])
                if _is_stack_call(t0, 'pop'):
                    popped.append(t0.get('id'))
                    seen.add(t0.get('id'))
                t = st['t']
                if isinstance(t, dict) and t.get('k') == 'call' and t.get('short') == 'deallocate_block':
                    for a in t.get('args', []):
                        for sub in subterms(a):
                            if _is_stack_call(sub, 'pop') and sub.get('id') in popped:
                                popped.remove(sub.get('id'))
            lost.update(popped)
        for pid, t in sorted(pops.items(), key=lambda kv: str(kv[0])):
            n += 1
            inst = '%s: %s [%s]' % (f.display, tstr(t)[:40], db.config)
            if pid in lost or pid not in seen:
                run.violation('R-ARENA.pop', inst, t.get('loc', f.loc),
                              'a block is popped off the arena\'s stack but is not the argument of a deallocate_block call on every path: it is neither tracked nor returned upstream',
                              site={'function': strip_ns(f.name).split('<')[0], 'role': 'popped block is released'})
            else:
                run.ok('R-ARENA.pop', inst, t.get('loc', f.loc), 'popped block goes to deallocate_block on every path')
    return n


def _empty_atoms(cond, taken, roles):
    """[(stack key, is_empty)] facts a branch on `cond` establishes"""
    out = []
    for a, tk in fwd.split_condition(cond, taken):
        a0 = sym.strip_casts(a)
        if _is_stack_call(a0, 'empty'):
            out.append((sym.canon(a0.get('recv'), roles), tk))
    return out


def check_arena(run, db):
    n = 0
    by_cls = {}
    for f in db.find(cls_t='memory_arena'):
        by_cls.setdefault(f.cls, []).append(f)
    for cls, fns in sorted(by_cls.items()):
        by = {f.short if f.kind == 'method' else f.kind: f for f in fns}
        cached = cls.rstrip('>').endswith('true')
        # ---- destructor
        d = by.get('dtor')
        if d is not None:
            n += 1
            inst = '%s [%s]' % (d.display, db.config)
            evs = list(d.events())
            # the cache is drained by shrink_to_fit() or directly by the cache base's do_shrink_to_fit(allocator)
            st = [e for e in evs if top_term(e) is not None and top_term(e).get('short') in ('shrink_to_fit', 'do_shrink_to_fit')]
            de = [e for e in evs if top_term(e) is not None and top_term(e).get('short') == 'deallocate_block']
            loops = [b for b in d.blocks.values() if b.get('term') and b['term'].get('cls') in ('WhileStmt', 'ForStmt')]
            probs = []
            if not st or not flow.must_pass_through(d, lambda e: e in st):
                probs.append('the cache is not drained (shrink_to_fit) on every path')
            if not de:
                probs.append('the used blocks are never returned')
            elif st and not d.ev_dominates(st[0], de[0]):
                probs.append('used blocks are returned before the cache is drained: the order of release is not the reverse of acquisition')
            if not any('used_.empty()' in sym.canon(b['term']['cond']) for b in loops):
                probs.append('the release loop is not guarded by used_.empty()')
            if de and not any(s.get('short') == 'pop' and 'used_' in sym.canon(s.get('recv') or {}) for s in subterms(top_term(de[0]))):
                probs.append('the destructor does not release used_.pop()')
            if probs:
                run.violation('R-ARENA.dtor', inst, d.loc, '; '.join(probs), site={'function': 'memory_arena::<dtor>', 'role': 'drain cache then used stack'})
            else:
                run.ok('R-ARENA.dtor', inst, d.loc, 'shrink_to_fit(); while (!used_.empty()) deallocate_block(used_.pop())')
        # ---- allocate_block
        a = by.get('allocate_block')
        if a is not None:
            n += 1
            inst = '%s [%s]' % (a.display, db.config)
            probs = []
            ups = 0
            for s in fwd.summarize(a, db=db, exceptional=True, roles={}, inline_pred=common.inline_private):
                up = [fc for fc in s.fwd if fc.kind == 'allocate_block']
                if s.end == 'return':
                    if up:
                        ups += 1
                        if not any('take_from_cache(' in c and not tk for c, tk in s.conds):
                            probs.append('the block source is asked although the cache was not found empty (%s)' % (s.cond_key(),))
                        pushes = [c for c in s.calls if c[1].get('short') == 'push']
                        if len(pushes) != 1 or not pushes[0][0].endswith('.push(R#0)') or pushes[0][3] < 1:
                            probs.append('the new block is not pushed onto the used stack right after the upstream call returned')
                    else:
                        if not any('take_from_cache(' in c and tk for c, tk in s.conds):
                            probs.append('a path returns a block without asking the source and without taking one from the cache')
                    if s.ret is None or not s.ret.endswith('used_.top()'):
                        probs.append('returns %s, not the top of the used stack' % s.ret)
                elif s.end == 'propagate' and s.throws is not None:
                    t = s.throws[2]
                    if t.get('short') == 'allocate_block':
                        if any(c[1].get('short') in ('push', 'steal_top') for c in s.calls) or s.writes:
                            probs.append('state is changed before the upstream call returned: a failing block source leaves a half-registered block')
                    elif up and (s.throw_at_fwd or 0) >= 1:
                        # the upstream call has returned a block; whatever throws now must find it registered
                        done = s.calls[:s.throw_at_call] if s.throw_at_call is not None else s.calls
                        if not any(c[1].get('short') == 'push' for c in done):
                            probs.append('`%s` may throw after the block source has handed out a block and before the block is pushed onto the used stack: '
                                         'that block is on no list and is never given back' % tstr(t)[:70])
            if ups == 0:
                probs.append('no path asks the block source')
            if probs:
                run.violation('R-ARENA.alloc', inst, a.loc, '; '.join(sorted(set(probs))[:3]), site={'function': 'memory_arena::allocate_block', 'role': 'cache first, push after'})
            else:
                run.ok('R-ARENA.alloc', inst, a.loc, 'cache first; upstream only when the cache is empty; push after the call; nothing written if it throws')
    return n


def check_cache(run, db):
    n = 0
    for f in db.find(cls_t='detail::memory_arena_cache'):
        cached = 'true' in f.cls
        inst = '%s [%s]' % (f.display, db.config)
        if f.short == 'do_deallocate_block':
            n += 1
            calls = [t for e, t in flow.call_events(f)]
            if cached:
                st = [t for t in calls if t.get('short') == 'steal_top']
                okk = len(st) == 1 and sym.canon(st[0]['recv']) == 'this.cached_' and sym.canon(st[0]['args'][0], {1: 'used'}) == '$used' \
                    and not any(t.get('short') in ('pop', 'deallocate_block') for t in calls)
                msg = 'cached_.steal_top(used): exactly the top used block moves to the cache'
            else:
                de = [t for t in calls if t.get('short') == 'deallocate_block']
                okk = len(de) == 1 and any(s.get('short') == 'pop' for s in subterms(de[0]))
                msg = 'alloc.deallocate_block(used.pop())'
            if okk:
                run.ok('R-ARENA.cache', inst, f.loc, msg)
            else:
                run.violation('R-ARENA.cache', inst, f.loc, 'deallocate_block does not move exactly the top used block (%s)' % [t.get('short') for t in calls],
                              site={'function': 'detail::memory_arena_cache::do_deallocate_block', 'role': 'one block, the newest'})
        elif f.short == 'take_from_cache' and cached:
            n += 1
            S = [s for s in fwd.summarize(f, db=db, roles={0: 'used'}) if s.end == 'return']
            good = bool(S)
            for s in S:
                st = [c for c in s.calls if c[1].get('short') == 'steal_top']
                cd = dict(s.conds)
                emp = cd.get('this.cached_.empty()')
                rv = {'true': True, 'false': False}.get(s.ret, s.ret_truth)
                if emp is None or rv is None:
                    good = False
                elif emp and (st or rv is not False):
                    good = False
                elif not emp and (len(st) != 1 or st[0][0] != '$used.steal_top(this.cached_)' or rv is not True):
                    good = False
            if good:
                run.ok('R-ARENA.cache', inst, f.loc, 'empty cache: false, nothing moved; else the cache top moves to the used stack, true')
            else:
                run.violation('R-ARENA.cache', inst, f.loc, 'take_from_cache does not move exactly the cache top when (and only when) the cache is non-empty',
                              site={'function': 'detail::memory_arena_cache::take_from_cache', 'role': 'cached block reused first'})
        elif f.short == 'do_shrink_to_fit' and cached:
            n += 1
            # orientation: cached_ is oldest-on-top; it must be flipped through a local stack before popping into deallocate_block.
            # Decided on every returning path with a non-emptiness typestate per stack: a stack is known non-empty after a branch on
            # !empty() or after something was moved onto it, unknown after something was taken off it.
            probs = set()
            try:
                traces = _returning_traces(f, db)
            except sym.PathLimit as ex:
                run.broke(str(ex))
                continue
            released = 0
            for p in traces:
                state = {}            # stack key -> True (known non-empty) / False (known empty)
                filled_from = {}      # local stack key -> set of sources
                infeasible = False
                pp = set()
                for st in p:
                    if st['kind'] == 'br':
                        for k, is_empty in _empty_atoms(st['raw'], st['taken'], {}):
                            if k in state and state[k] == is_empty:
                                infeasible = True     # the branch contradicts what the path has done to that stack
                            state[k] = not is_empty
                        if infeasible:
                            break
                        continue
                    if st['kind'] != 'ev':
                        continue
                    e = st['e']
                    if e.get('ev') == 'decl':
                        for v in e['vars']:
                            ini = sym.strip_casts(v.get('init')) if isinstance(v.get('init'), dict) else None
                            if cls_template(v['t']) == BSTACK and (ini is None or (ini.get('k') == 'construct' and not ini.get('args'))):
                                state['local:' + v['name']] = False     # default constructed: empty
                        continue
                    t0 = top_term(e)
                    if _is_stack_call(t0, 'steal_top'):
                        dst, src = sym.canon(t0.get('recv'), {}), sym.canon(t0['args'][0], {})
                        if state.get(src) is not True:
                            pp.add('a block is taken off %s on a path that has not established that it is non-empty' % src)
                        state.pop(src, None)
                        state[dst] = True
                        filled_from.setdefault(dst, set()).add(src)
                    elif _is_stack_call(t0, 'pop'):
                        src = sym.canon(t0.get('recv'), {})
                        if state.get(src) is not True:
                            pp.add('a block is popped off %s on a path that has not established that it is non-empty' % src)
                        state.pop(src, None)
                        released += 1
                        if src == 'this.cached_':
                            pp.add('blocks are popped straight from the cache, which holds the oldest freed block on top: they would go upstream oldest first')
                        elif not src.startswith('local:') or filled_from.get(src) != {'this.cached_'}:
                            pp.add('the cache is not flipped through a temporary stack before release')
                    elif _is_stack_call(t0, 'push'):
                        state[sym.canon(t0.get('recv'), {})] = True
                if infeasible:
                    continue
                for k in list(state) + list(filled_from):
                    if (k == 'this.cached_' or k in filled_from) and state.get(k) is not False:
                        pp.add('%s is not known to be empty when the function returns: cached blocks stay behind' % k)
                if 'this.cached_' not in state:
                    pp.add('a path returns without having established that the cache is empty')
                probs |= pp
            if not released:
                probs.add('nothing is returned to the block source')
            if probs:
                run.violation('R-ARENA.order', inst, f.loc, '; '.join(sorted(probs)[:3]), site={'function': 'detail::memory_arena_cache::do_shrink_to_fit', 'role': 'orientation flip'})
            else:
                run.ok('R-ARENA.order', inst, f.loc, 'cache flipped through a temporary stack while non-empty, then popped newest first until empty')
    return n


def check_block_sources(run, db):
    n = 0
    for ct in BLOCK_SOURCES + ('tracked_block_allocator', 'detail::deeply_tracked_block_allocator'):
        by_cls = {}
        for f in db.find(cls_t=ct):
            by_cls.setdefault(f.cls, []).append(f)
        for cls, fns in sorted(by_cls.items()):
            by = {f.short: f for f in fns}
            a, d = by.get('allocate_block'), by.get('deallocate_block')
            if a is None or d is None:
                continue
            n += 1
            inst = '%s <-> deallocate_block [%s]' % (a.display, db.config)
            site = {'function': ct + '::allocate_block', 'role': 'block unchanged, released with its own terms'}
            probs = []
            acq = None
            for s in fwd.summarize(a, db=db, exceptional=True, roles={}, inline_pred=common.inline_private):
                ups = [fc for fc in s.fwd if fc.kind in ('allocate_array', 'allocate_block', 'allocate_node')]
                if s.end == 'return':
                    if len(ups) != 1:
                        probs.append('a successful path makes %d upstream requests' % len(ups))
                        continue
                    acq = ups[0]
                    if acq.kind == 'allocate_array':
                        want = 'memory_block{R#0,%s}' % acq.args.get('count')
                        if s.ret != want:
                            probs.append('returns %s, the upstream allocation was %s: the block is not what was obtained' % (s.ret, acq))
                        if acq.args.get('size') != '1' or acq.args.get('alignment') != 'g:detail::max_alignment':
                            probs.append('upstream request is not (size, 1, max_alignment): %s' % acq)
                    else:
                        if s.ret != 'R#0':
                            probs.append('returns %s, not the block obtained upstream' % s.ret)
                elif s.end == 'propagate' and s.throws is not None and s.throws[2].get('short') in ('allocate_array', 'allocate_block'):
                    if s.writes:
                        probs.append('writes %s before the upstream call returned' % [w[0] for w in s.writes][:2])
            for s in fwd.summarize(d, db=db, roles={0: 'block'}):
                if s.end != 'return':
                    continue
                rel = [fc for fc in s.fwd if fc.kind in ('deallocate_array', 'deallocate_block', 'deallocate_node')]
                if len(rel) != 1:
                    probs.append('deallocate_block releases %d times on a path' % len(rel))
                    continue
                r = rel[0]
                if acq is not None and fwd.ACQUIRE_OF.get(r.kind) != acq.kind:
                    probs.append('acquired with %s, released with %s' % (acq.kind, r.kind))
                if r.kind == 'deallocate_array':
                    if (r.args.get('ptr'), r.args.get('count'), r.args.get('size'), r.args.get('alignment')) != ('$block.memory', '$block.size', '1', 'g:detail::max_alignment'):
                        probs.append('released with %s, not (block.memory, block.size, 1, max_alignment)' % r)
                    if acq is not None and r.target != acq.target:
                        probs.append('released to %s, obtained from %s' % (r.target, acq.target))
                else:
                    if r.args.get('block') != '$block':
                        probs.append('releases %s, not the block it was given' % r.args.get('block'))
            if probs:
                run.violation('R-FWD.block', inst, a.loc, '; '.join(sorted(set(probs))[:3]), site=site)
            else:
                run.ok('R-FWD.block', inst, a.loc, 'block = upstream result; released with (block.memory, block.size, 1, max_alignment) to the same allocator')
    return n


class _Renamed:
    """report the shared move rules of C12 under this property's rule name"""

    def __init__(self, run, name):
        self._run, self._name = run, name

    def ok(self, rule, *a, **k):
        return self._run.ok(self._name, *a, **k)

    def violation(self, rule, inst, loc, detail, site=None, **k):
        return self._run.violation(self._name, inst, loc, '[%s] %s' % (rule, detail), site=site, **k)

    def __getattr__(self, n):
        return getattr(self._run, n)


BLOCK_OWNERS = ('memory_arena', 'detail::memory_arena_cache', 'detail::memory_block_stack', 'growing_block_allocator',
                'fixed_block_allocator', 'static_block_allocator', 'virtual_block_allocator')


def check_owner_moves(run, db):
    """a block obtained upstream is returned exactly once also across move construction, move assignment and swap of the
    objects that hold the block lists: every list (used, cached) and the block source travel together; the source of a move
    keeps nothing; assignment releases what it overwrites (shared rules R-MOVE.1/.2/.4 of C12, restricted to block owners)"""
    from rules import c12
    rr = _Renamed(run, 'R-ARENA.move')
    n = 0
    for cls, ops in sorted(c12.classes_with_moves(db).items()):
        if cls not in db.classes or cls_template(cls) not in BLOCK_OWNERS:
            continue
        n += 1
        c12.check_coverage(rr, db, cls, ops)
        c12.check_emptiness(rr, db, cls, ops)
        c12.check_release_before_overwrite(rr, db, cls, ops)
    return n


def check_block_stack(run, db):
    """the intrusive stack of blocks: push links a header placed at the block's start in front of the old head and records
    size - offset; pop unlinks the head and returns (header address, usable size + offset) - the block as it was pushed;
    steal_top unlinks the other stack's head and links exactly that node in front of this stack's head (the block is on one stack
    at any time).  Decided on the final symbolic values of the fields, not on the spelling."""
    OFF = 'detail::memory_block_stack::implementation_offset()'
    n = 0
    for f in db.find(cls_t='detail::memory_block_stack'):
        if f.short not in ('push', 'pop', 'steal_top') or f.pattern:
            continue
        n += 1
        roles = {0: 'other'} if f.short == 'steal_top' else ({0: 'block'} if f.short == 'push' else {})
        S = [x for x in fwd.summarize(f, db=db, roles=roles, no_forward=True,
                                      inline_pred=lambda a, c, t: cls_template(c.cls or '') == BSTACK and c.key != a.key and c.short not in ('implementation_offset',))
             if x.end == 'return']
        probs = []
        if len(S) != 1:
            probs.append('%d returning paths' % len(S))
        for x in S:
            fl = {k: sym.canon(v, roles) for k, v in x.fields.items()}
            if f.short == 'steal_top':
                linked = [w for w in x.writes if w[0] == '$other.head_.prev' and w[1] == 'this.head_']
                okk = fl.get('$other.head_') == '$other.head_.prev' and fl.get('this.head_') == '$other.head_' and len(linked) == 1 \
                    and not [w for w in x.writes if w[0].endswith('.prev') and w not in linked]
                if not okk:
                    probs.append('after steal_top the links are %s; expected: other.head_ = old other.head_->prev, stolen->prev = old head_, head_ = stolen' % sorted(fl.items()))
            elif f.short == 'pop':
                if fl != {'this.head_': 'this.head_.prev'}:
                    probs.append('pop leaves %s, expected head_ = head_->prev' % sorted(fl.items()))
                rt = sym.strip_casts(x.ret_term) if x.ret_term is not None else None
                while isinstance(rt, dict) and rt.get('k') != 'construct' and isinstance(rt.get('e'), dict):
                    rt = sym.strip_casts(rt['e'])
                ra = rt.get('args', []) if isinstance(rt, dict) and rt.get('k') == 'construct' else []
                if len(ra) != 2 or sym.canon(ra[0], roles) != 'this.head_' or linear.lin(ra[1], roles) != {'this.head_.usable_size': 1, OFF: 1}:
                    probs.append('pop returns %s, not (header address, usable size + offset)' % x.ret)
            else:
                cons = [c[0] for c in x.calls if c[1].get('k') == 'construct' and 'memory_block_stack::node' in str(c[1].get('type', ''))]
                if not any(c.startswith('detail::memory_block_stack::node{this.head_,($block.size - %s)}' % OFF) for c in cons):
                    probs.append('push builds %s, not node{old head, block.size - offset}' % (cons[:1] or 'no node'))
                if fl.get('this.head_') != 'new($block.memory)detail::memory_block_stack::node':
                    probs.append('push sets head_ to %s, not to the header placed at block.memory' % fl.get('this.head_'))
        inst = '%s [%s]' % (f.display, db.config)
        if probs:
            run.violation('R-ARENA.stack', inst, f.loc, '; '.join(sorted(set(probs))[:2]), site={'function': 'detail::memory_block_stack::' + f.short, 'role': 'block on exactly one stack, unchanged'})
        else:
            run.ok('R-ARENA.stack', inst, f.loc, {'push': 'header at block.memory, size - offset, linked in front', 'pop': 'head unlinked, (header, usable + offset) returned',
                                                    'steal_top': 'unlinked there, linked here'}[f.short])
    return n


def check_failed_block_request(run, db):
    """a block request that fails (the upstream call throws, or the source itself throws out_of_memory) leaves the arena and the block
    source as they were: cursors, sizes and lists are written only after the memory was obtained (shared rule R-THROW.7 of C03,
    restricted to the block owners)"""
    from rules import c03
    return c03.check_failed_growth(_Renamed(run, 'R-ARENA.fail'), db, only=BLOCK_OWNERS + ('detail::temporary_block_allocator',))


def run(run):
    run.rule('R-ARENA.stack', 'push / pop / steal_top of the intrusive block stack', floor=6)
    run.rule('R-ARENA.fail', 'a failed block request leaves arena and block source unchanged', floor=6)
    run.rule('R-ARENA.move', 'move construction / assignment / swap of block owners transfer every block list together with the block source', floor=10)
    run.rule('R-ARENA.pop', 'popped blocks flow only into deallocate_block', floor=4)
    run.rule('R-ARENA.dtor', 'destructor drains cache then used stack', floor=4)
    run.rule('R-ARENA.alloc', 'cache first, upstream only when empty, push after, nothing written on failure', floor=4)
    run.rule('R-ARENA.cache', 'deallocate_block / take_from_cache move exactly one block', floor=4)
    run.rule('R-ARENA.order', 'shrink_to_fit flips the cache before releasing', floor=1)
    run.rule('R-FWD.block', 'block sources hand out and release the unchanged block', floor=4)
    run.explanation = ('"Exactly once" over histories is not counted; the structure is decided: each header sits on one intrusive stack, '
                       'pop results only go upstream, the arena asks upstream only with an empty cache, and the release order follows from the '
                       'block-order typestate (used: newest on top; cache: oldest on top; flipped before release).')
    run.assumptions += ['release-before-overwrite for owners other than the block owners is C12 R-MOVE.4; LIFO checks of the LIFO-only sources are C16']
    for cfg in common.configs(run):
        db = build.load_db(cfg, log=run.log)
        if check_pop_sites(run, db) < 4:
            run.broke('pop() call sites not found [%s]' % cfg)
        if check_arena(run, db) < 6:
            run.broke('memory_arena members not found [%s]' % cfg)
        if check_cache(run, db) < 4:
            run.broke('memory_arena_cache members not found [%s]' % cfg)
        if check_block_sources(run, db) < 3:
            run.broke('block sources not found [%s]' % cfg)
        if check_block_stack(run, db) < 3:
            run.broke('memory_block_stack members not found [%s]' % cfg)
        if check_failed_block_request(run, db) < 3:
            run.broke('block request functions not found [%s]' % cfg)
        if check_owner_moves(run, db) < 6:
            run.broke('block owners with move operations not found [%s]' % cfg)
