// W-leak: which leak checker each allocator uses in this configuration
#include "../drivers/common.hpp"
using namespace verif_drv;
namespace d = mem::detail;
#if FOONATHAN_MEMORY_DEBUG_LEAK_CHECK
static_assert(std::is_base_of<d::object_leak_checker<d::memory_pool_leak_handler>, mem::memory_pool<>>::value, "memory_pool counts per object");
static_assert(std::is_base_of<d::object_leak_checker<d::memory_pool_collection_leak_handler>, mem::memory_pool_collection<mem::node_pool, mem::log2_buckets>>::value, "collection counts per object");
static_assert(std::is_base_of<d::object_leak_checker<d::memory_stack_leak_handler>, mem::memory_stack<>>::value, "memory_stack counts per object");
static_assert(std::is_same<d::global_leak_checker<d::virtual_memory_allocator_leak_handler>, d::global_leak_checker_impl<d::virtual_memory_allocator_leak_handler>>::value, "virtual memory counts globally");
static_assert(std::is_same<d::default_leak_checker<int>, d::object_leak_checker<int>>::value, "default checker is the object checker");
#else
static_assert(std::is_base_of<d::no_leak_checker<d::memory_pool_leak_handler>, mem::memory_pool<>>::value, "memory_pool does not count");
static_assert(std::is_same<d::default_leak_checker<int>, d::no_leak_checker<int>>::value, "default checker is the null checker");
static_assert(std::is_same<d::global_leak_checker<d::virtual_memory_allocator_leak_handler>, d::no_leak_checker<int>>::value, "no global counting");
#endif
static_assert(std::is_nothrow_move_constructible<mem::memory_pool<>>::value && std::is_nothrow_move_assignable<mem::memory_pool<>>::value, "pool moves are noexcept");
