// W-joint: memory of a joint object never leaves it through a container (compile-time)
#include <memory>
#include <type_traits>
#include "../drivers/common.hpp"
using namespace verif_drv;
template <class A>
using at = std::allocator_traits<mem::std_allocator<int, A>>;
// a container using joint_allocator keeps its own allocator on swap / move assignment / copy assignment: with unequal allocators
// the standard containers then move element-wise into the target's own joint memory instead of adopting the other object's buffer
static_assert(!at<mem::joint_allocator>::propagate_on_container_swap::value, "joint_allocator must not propagate on swap");
static_assert(!at<mem::joint_allocator>::propagate_on_container_move_assignment::value, "joint_allocator must not propagate on move assignment");
static_assert(!at<mem::joint_allocator>::propagate_on_container_copy_assignment::value, "joint_allocator must not propagate on copy assignment");
static_assert(!at<mem::joint_allocator>::is_always_equal::value, "joint allocators of different objects are not interchangeable");
// joint objects cannot be copied or moved as such (that would share or orphan the joint memory)
struct jt : mem::joint_type<jt>
{
    jt(mem::joint j) : mem::joint_type<jt>(j) {}
};
static_assert(!std::is_copy_constructible<mem::joint_type<jt>>::value && !std::is_move_constructible<mem::joint_type<jt>>::value,
              "joint_type must not be copyable or movable");
static_assert(!std::is_copy_assignable<mem::joint_type<jt>>::value && !std::is_move_assignable<mem::joint_type<jt>>::value,
              "joint_type must not be assignable");
// joint_allocator can only be made from a joint object, and a joint_array cannot be copied without naming the new owner
static_assert(!std::is_default_constructible<mem::joint_allocator>::value, "joint_allocator needs its object");
static_assert(!std::is_copy_constructible<mem::joint_array<int>>::value && !std::is_move_constructible<mem::joint_array<int>>::value,
              "joint_array copies need the target object's joint memory");
