// W-iface: a class exposing any try_ member exposes the node pair and both or neither of the array pair.
#include "../drivers/common.hpp"
using namespace verif_drv;
using std::size_t;
template <class...> using void_t = void;
#define DETECT(name, expr)                                                                         \
    template <class A, class = void> struct name : std::false_type {};                              \
    template <class A> struct name<A, void_t<decltype(expr)>> : std::true_type {};
DETECT(has_try_alloc_node, std::declval<A&>().try_allocate_node(size_t(1), size_t(1)))
DETECT(has_try_dealloc_node, std::declval<A&>().try_deallocate_node((void*)nullptr, size_t(1), size_t(1)))
DETECT(has_try_alloc_array, std::declval<A&>().try_allocate_array(size_t(1), size_t(1), size_t(1)))
DETECT(has_try_dealloc_array, std::declval<A&>().try_deallocate_array((void*)nullptr, size_t(1), size_t(1), size_t(1)))
template <class A>
constexpr bool iface_complete()
{
    return (has_try_alloc_node<A>::value == has_try_dealloc_node<A>::value) && (has_try_alloc_array<A>::value == has_try_dealloc_array<A>::value)
           && (!(has_try_alloc_array<A>::value || has_try_dealloc_array<A>::value) || has_try_alloc_node<A>::value);
}
using pool  = mem::memory_pool<>;
using stack = mem::memory_stack<>;
#define COMPLETE(...) static_assert(iface_complete<__VA_ARGS__>(), "composable interface incomplete: " #__VA_ARGS__)
#define COMPOSABLE_FULL(...)                                                                       \
    static_assert(has_try_alloc_node<__VA_ARGS__>::value && has_try_dealloc_node<__VA_ARGS__>::value && has_try_alloc_array<__VA_ARGS__>::value \
                      && has_try_dealloc_array<__VA_ARGS__>::value,                                 \
                  "composable wrapper lacks a try_ member: " #__VA_ARGS__)
COMPLETE(mem::fallback_allocator<pool, stack>);
COMPOSABLE_FULL(mem::fallback_allocator<pool, stack>);
COMPLETE(mem::fallback_allocator<pool, mem::heap_allocator>);
COMPLETE(mem::fallback_allocator<mem::fallback_allocator<pool, stack>, full_composable_allocator>);
COMPOSABLE_FULL(mem::fallback_allocator<mem::fallback_allocator<pool, stack>, full_composable_allocator>);
COMPLETE(mem::aligned_allocator<pool>);
COMPOSABLE_FULL(mem::aligned_allocator<pool>);
COMPLETE(mem::aligned_allocator<min_stateful_allocator>);
COMPLETE(mem::tracked_allocator<tracker, pool>);
COMPOSABLE_FULL(mem::tracked_allocator<tracker, pool>);
COMPLETE(mem::allocator_storage<mem::direct_storage<pool>, std::mutex>);
COMPOSABLE_FULL(mem::allocator_storage<mem::direct_storage<pool>, std::mutex>);
COMPLETE(mem::allocator_storage<mem::direct_storage<min_stateful_allocator>, std::mutex>);
COMPLETE(mem::any_allocator_reference);
COMPOSABLE_FULL(mem::any_allocator_reference);
COMPLETE(mem::null_allocator);
// the traits see composable allocators as composable, and non-composable ones as not
static_assert(mem::is_composable_allocator<pool>::value && mem::is_composable_allocator<stack>::value, "pool/stack composable");
static_assert(mem::is_composable_allocator<mem::memory_pool_collection<mem::node_pool, mem::log2_buckets>>::value, "collection composable");
static_assert(mem::is_composable_allocator<mem::iteration_allocator<2>>::value, "iteration allocator composable");
static_assert(mem::is_composable_allocator<mem::fallback_allocator<pool, stack>>::value, "fallback of composables is composable");
static_assert(mem::is_composable_allocator<mem::fallback_allocator<mem::fallback_allocator<pool, stack>, pool>>::value, "nested fallback composable");
static_assert(mem::is_composable_allocator<mem::aligned_allocator<pool>>::value && mem::is_composable_allocator<mem::tracked_allocator<tracker, pool>>::value, "wrappers keep composability");
static_assert(!mem::is_composable_allocator<mem::heap_allocator>::value && !mem::is_composable_allocator<min_stateful_allocator>::value, "heap/min not composable");
static_assert(!mem::is_composable_allocator<mem::fallback_allocator<pool, mem::heap_allocator>>::value, "fallback to heap is not composable");
static_assert(mem::is_composable_allocator<mem::null_allocator>::value, "null_allocator composable");
