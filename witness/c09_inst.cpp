// W-inst: every member of every wrapper must instantiate, for composable and non-composable wrapped allocators.
// The drivers contain the odr-uses; compiling them is the witness.
#include "../drivers/storage.cpp"
#define drive_storage drive_storage2
#include "../drivers/wrappers.cpp"
static_assert(true, "drivers instantiate");
