// W-layout: the intrusive headers never overlap the usable range and keep it max-aligned.
#include <climits>
#include "../drivers/common.hpp"
namespace d = foonathan::memory::detail;
// arena block header
static_assert(d::memory_block_stack::implementation_offset() % d::max_alignment == 0, "arena header keeps max_alignment");
static_assert(d::memory_block_stack::implementation_offset() >= 2 * sizeof(void*), "arena header holds its node (prev pointer + usable size)");
static_assert(d::memory_block_stack::implementation_offset() < 8 * d::max_alignment, "arena header is small");
static_assert(foonathan::memory::memory_arena<foonathan::memory::growing_block_allocator<>>::min_block_size(0) == d::memory_block_stack::implementation_offset(),
              "arena min_block_size(0) is exactly the header");
// small-node chunks
static_assert(d::chunk_memory_offset % d::max_alignment == 0, "chunk header keeps max_alignment");
static_assert(d::chunk_memory_offset >= sizeof(d::chunk_base), "chunk header holds chunk_base");
static_assert(d::chunk_max_nodes <= UCHAR_MAX, "node indices fit an unsigned char");
static_assert(sizeof(decltype(d::chunk_base::first_free)) == 1 && sizeof(decltype(d::chunk_base::capacity)) == 1 && sizeof(decltype(d::chunk_base::no_nodes)) == 1,
              "chunk bookkeeping is byte sized (indices are stored in the first byte of a free node)");
// intrusive list nodes need room for their links
static_assert(d::free_memory_list::min_element_size >= sizeof(char*), "free node holds one pointer");
static_assert(d::ordered_free_memory_list::min_element_size >= sizeof(char*), "ordered free node holds one xor pointer");
static_assert(d::free_memory_list::min_block_size(1, 1) >= sizeof(char*) && d::ordered_free_memory_list::min_block_size(1, 1) >= sizeof(char*), "node size is raised to the link size");
static_assert(d::small_free_memory_list::min_element_size == 1, "small nodes may be one byte (index links)");
static_assert(d::max_alignment >= alignof(void*) && (d::max_alignment & (d::max_alignment - 1)) == 0, "max_alignment is a power of two");
