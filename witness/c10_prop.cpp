// W-prop: what standard containers see through std::allocator_traits
#include <memory>
#include "../drivers/common.hpp"
using namespace verif_drv;
template <class A>
using at = std::allocator_traits<mem::std_allocator<int, A>>;
#define PROPAGATES(...)                                                                            \
    static_assert(at<__VA_ARGS__>::propagate_on_container_swap::value && at<__VA_ARGS__>::propagate_on_container_move_assignment::value \
                      && at<__VA_ARGS__>::propagate_on_container_copy_assignment::value,            \
                  "the allocator reference does not travel with the memory for " #__VA_ARGS__)
PROPAGATES(mem::memory_pool<>);
PROPAGATES(mem::memory_pool<mem::array_pool>);
PROPAGATES(mem::memory_pool_collection<mem::node_pool, mem::log2_buckets>);
PROPAGATES(mem::memory_stack<>);
PROPAGATES(mem::iteration_allocator<2>);
PROPAGATES(mem::static_allocator);
PROPAGATES(mem::any_allocator);
PROPAGATES(mem::tracked_allocator<counting_tracker, mem::heap_allocator>);
PROPAGATES(mem::aligned_allocator<mem::memory_pool<>>);
PROPAGATES(mem::fallback_allocator<mem::memory_pool<>, mem::heap_allocator>);
PROPAGATES(min_stateful_allocator);
PROPAGATES(full_composable_allocator);
PROPAGATES(mem::memory_resource_allocator);
PROPAGATES(mem::heap_allocator); // harmless for stateless allocators
// joint_allocator must never leave its object
static_assert(!at<mem::joint_allocator>::propagate_on_container_swap::value && !at<mem::joint_allocator>::propagate_on_container_move_assignment::value
                  && !at<mem::joint_allocator>::propagate_on_container_copy_assignment::value,
              "joint_allocator must not propagate");
// Observation (not a clause of C10): the typedef-detecting overloads of traits_detail::propagate_on_container_* take std_concept,
// the defaults take min_concept, and full_concept derives from min_concept first - so the default (true_type) always wins and a
// user typedef `propagate_on_container_swap = std::false_type` is ignored.  For C10 this errs on the safe side (the reference
// always travels with the memory); it is recorded in DESIGN.md, not asserted here.
// stateful references are never "always equal"
static_assert(!at<mem::memory_pool<>>::is_always_equal::value, "stateful std_allocator is not always equal");
static_assert(!at<mem::any_allocator>::is_always_equal::value, "type-erased std_allocator is not always equal");
// std_allocator is one pointer wide for stateful references (the node size tables assume it)
static_assert(sizeof(mem::std_allocator<int, mem::memory_pool<>>) == sizeof(void*), "std_allocator over a stateful allocator is one pointer");
static_assert(std::is_same<at<mem::memory_pool<>>::rebind_alloc<long>, mem::std_allocator<long, mem::memory_pool<>>>::value, "rebind keeps the RawAllocator");
