// W-mutex: which mutex an allocator_storage really has.
#include "../drivers/common.hpp"
using namespace verif_drv;
namespace d = mem::detail;

// stateful allocators keep the requested mutex
static_assert(std::is_same<d::mutex_for<mem::memory_pool<>, std::mutex>, std::mutex>::value, "pool keeps std::mutex");
static_assert(std::is_same<d::mutex_for<mem::memory_stack<>, std::mutex>, std::mutex>::value, "stack keeps std::mutex");
static_assert(std::is_same<d::mutex_for<mem::memory_pool_collection<mem::node_pool, mem::log2_buckets>, user_mutex>, user_mutex>::value, "collection keeps user mutex");
static_assert(std::is_same<d::mutex_for<mem::iteration_allocator<2>, std::mutex>, std::mutex>::value, "iteration allocator keeps std::mutex");
static_assert(std::is_same<d::mutex_for<mem::static_allocator, std::mutex>, std::mutex>::value, "static_allocator keeps std::mutex");
static_assert(std::is_same<d::mutex_for<min_stateful_allocator, user_mutex>, user_mutex>::value, "user stateful keeps user mutex");
static_assert(std::is_same<d::mutex_for<full_composable_allocator, std::mutex>, std::mutex>::value, "user composable keeps std::mutex");
static_assert(std::is_same<d::mutex_for<mem::tracked_allocator<tracker, mem::memory_pool<>>, std::mutex>, std::mutex>::value, "tracked pool keeps std::mutex");
static_assert(std::is_same<d::mutex_for<mem::aligned_allocator<mem::memory_pool<>>, std::mutex>, std::mutex>::value, "aligned pool keeps std::mutex");
static_assert(std::is_same<d::mutex_for<mem::fallback_allocator<mem::memory_pool<>, mem::heap_allocator>, std::mutex>, std::mutex>::value, "fallback with stateful part keeps std::mutex");
static_assert(std::is_same<d::mutex_for<mem::temporary_allocator, std::mutex>, std::mutex>::value, "temporary_allocator keeps std::mutex");
// type-erased references are stateful: they keep the mutex
static_assert(std::is_same<d::mutex_for<mem::reference_storage<mem::any_allocator>::allocator_type, std::mutex>, std::mutex>::value, "any reference keeps std::mutex");

// stateless allocators take no lock - and only they
static_assert(std::is_same<d::mutex_for<mem::heap_allocator, std::mutex>, mem::no_mutex>::value, "heap_allocator needs no mutex");
static_assert(std::is_same<d::mutex_for<mem::malloc_allocator, std::mutex>, mem::no_mutex>::value, "malloc_allocator needs no mutex");
static_assert(std::is_same<d::mutex_for<mem::new_allocator, std::mutex>, mem::no_mutex>::value, "new_allocator needs no mutex");
static_assert(std::is_same<d::mutex_for<mem::virtual_memory_allocator, std::mutex>, mem::no_mutex>::value, "virtual_memory_allocator needs no mutex");
static_assert(std::is_same<d::mutex_for<stateless_allocator, std::mutex>, mem::no_mutex>::value, "user stateless needs no mutex");
static_assert(!mem::allocator_traits<mem::heap_allocator>::is_stateful::value, "heap_allocator is stateless");
static_assert(!mem::allocator_traits<mem::virtual_memory_allocator>::is_stateful::value, "virtual_memory_allocator is stateless");
static_assert(mem::is_thread_safe_allocator<mem::heap_allocator>::value && !mem::is_thread_safe_allocator<mem::memory_pool<>>::value, "thread-safety trait");
static_assert(mem::allocator_traits<mem::memory_pool<>>::is_stateful::value && mem::allocator_traits<mem::memory_stack<>>::is_stateful::value
                  && mem::allocator_traits<mem::static_allocator>::is_stateful::value && mem::allocator_traits<mem::iteration_allocator<3>>::is_stateful::value,
              "arena allocators are stateful");

// the storage really contains the mutex it locks
static_assert(std::is_base_of<d::mutex_storage<std::mutex>, mem::thread_safe_allocator<mem::memory_pool<>>>::value, "thread_safe_allocator owns a std::mutex");
static_assert(std::is_base_of<d::mutex_storage<user_mutex>, mem::thread_safe_allocator<mem::memory_pool<>, user_mutex>>::value, "thread_safe_allocator owns the user mutex");
static_assert(sizeof(d::mutex_storage<std::mutex>) >= sizeof(std::mutex), "mutex_storage embeds the mutex");
static_assert(std::is_same<mem::thread_safe_allocator<mem::memory_pool<>>, mem::allocator_storage<mem::direct_storage<mem::memory_pool<>>, std::mutex>>::value, "thread_safe_allocator is allocator_storage with std::mutex");
// a thread_safe_allocator is itself thread safe only through its mutex: it stays stateful
static_assert(mem::allocator_traits<mem::thread_safe_allocator<mem::memory_pool<>>>::is_stateful::value, "wrapper stays stateful");

// wrappers with any stateful component keep the mutex, whatever they wrap
#define KEEPS(...) static_assert(std::is_same<d::mutex_for<__VA_ARGS__, std::mutex>, std::mutex>::value, "stateful allocator loses its mutex: " #__VA_ARGS__)
KEEPS(mem::tracked_allocator<counting_tracker, mem::heap_allocator>);
KEEPS(mem::tracked_allocator<counting_tracker, mem::malloc_allocator>);
KEEPS(mem::tracked_allocator<counting_tracker, stateless_allocator>);
KEEPS(mem::tracked_allocator<counting_tracker, mem::memory_pool<>>);
KEEPS(mem::tracked_allocator<tracker, mem::memory_stack<>>);
KEEPS(mem::aligned_allocator<mem::heap_allocator>);
KEEPS(mem::fallback_allocator<mem::heap_allocator, mem::memory_pool<>>);
KEEPS(mem::fallback_allocator<mem::static_allocator, mem::heap_allocator>);
KEEPS(mem::binary_segregator<mem::threshold_segregatable<mem::memory_pool<>>, mem::heap_allocator>);
KEEPS(mem::memory_resource_allocator);
KEEPS(mem::memory_pool<mem::small_node_pool>);
KEEPS(mem::memory_pool_collection<mem::array_pool, mem::identity_buckets>);
KEEPS(mem::iteration_allocator<3>);
KEEPS(mem::deeply_tracked_allocator<counting_tracker, mem::memory_pool<>>);
// generic: whoever is stateful by the traits keeps the mutex (the one documented exception is joint_allocator)
#define STATEFUL_KEEPS(...) static_assert(!mem::allocator_traits<__VA_ARGS__>::is_stateful::value || std::is_same<d::mutex_for<__VA_ARGS__, user_mutex>, user_mutex>::value, "stateful by its traits but gets no_mutex: " #__VA_ARGS__)
STATEFUL_KEEPS(mem::tracked_allocator<counting_tracker, mem::heap_allocator>);
STATEFUL_KEEPS(mem::tracked_allocator<tracker, mem::heap_allocator>);
STATEFUL_KEEPS(mem::aligned_allocator<mem::new_allocator>);
STATEFUL_KEEPS(mem::fallback_allocator<mem::heap_allocator, mem::malloc_allocator>);
STATEFUL_KEEPS(mem::std_allocator<int, mem::memory_pool<>>);
STATEFUL_KEEPS(mem::allocator_reference<mem::memory_pool<>>);
STATEFUL_KEEPS(mem::any_allocator_reference);
static_assert(mem::allocator_traits<mem::tracked_allocator<counting_tracker, mem::heap_allocator>>::is_stateful::value, "a stateful tracker makes the tracked allocator stateful");
static_assert(std::is_same<d::mutex_for<mem::joint_allocator, std::mutex>, mem::no_mutex>::value, "joint_allocator is documented as thread safe as-is (one object, one owner)");
