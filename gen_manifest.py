#!/usr/bin/env python3
"""regenerates MANIFEST.json from the per-property tables below (kept in one place so the file stays valid)"""
import json, os
HERE = os.path.dirname(os.path.abspath(__file__))
CLAIMED = json.load(open(os.path.join(HERE, 'claims.json')))
props = [json.loads(l) for l in open(os.path.join(HERE, 'properties.jsonl'))]
checks = []
na = []
for p in props:
    pid = p['id']
    c = CLAIMED.get(pid)
    if not c or c.get('not_applicable'):
        na.append({'property_id': pid, 'reason': (c or {}).get('reason', 'rule not built yet (see DESIGN.md section 5 for the plan)')})
        continue
    checks.append({
        'property_id': pid,
        'quick_cmd': './bin/check %s --tier quick' % pid,
        'thorough_cmd': './bin/check %s --tier thorough' % pid,
        'evidence_file': '/verif/evidence/%s.json' % pid,
        'replay_cmd_template': './bin/check %s --explain {path}' % pid,
        'engine': 'memfacts+rules',
        'level_claimed': {'category': c.get('category', 'other'), 'text': c['text'], 'design_ref': 'DESIGN.md section 5, ' + pid},
        'level_note': c['note'],
        'technique': c['technique'],
    })
m = {
    'version': 1,
    'setup_cmd': 'make -C /verif/tool',
    'hooks': {'guard': 'FOONATHAN_MEMORY_VERIF', 'enable': 'none needed: the extractor reads private members, no instrumentation is compiled in',
              'baseline_off_cmd': 'cmake -S /repo -B /repo/_build -G Ninja -DCMAKE_BUILD_TYPE=RelWithDebInfo && cmake --build /repo/_build && ctest --test-dir /repo/_build -j8 --timeout 900',
              'source_commits': [], 'add_only': True},
    'engines': [{'name': 'memfacts+rules', 'path': '/verif/tool/memfacts.cc, /verif/engine, /verif/rules',
                 'serves_properties': [c['property_id'] for c in checks],
                 'kind_free_text': 'libTooling fact extractor (resolved AST of template instantiations + CFG per function) and a Python rule engine: '
                                   'dominance / must-dataflow / path rules with exceptional edges, call graph, term agreement between sibling functions, '
                                   'compile-time witnesses (static_assert, explicit instantiation, clang -verify). No code of the library is executed, no solver is called.'}],
    'checks': checks,
    'not_applicable': na,
    'notes': 'Static analysis only. Exit 0 pass / 1 violation / 2 analysis broken (anchor vanished, instance floor not reached, self-test fixture silent). See DESIGN.md.',
}
json.dump(m, open(os.path.join(HERE, 'MANIFEST.json'), 'w'), indent=1)
print('claimed', [c['property_id'] for c in checks]); print('n/a', [n['property_id'] for n in na])
