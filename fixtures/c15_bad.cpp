// R-PAIR fixture
// EXPECT-FIRE: counts_size_vs_total counts_before_throw forgets_on_one_path counts_twice
// EXPECT-SILENT: good
#include <foonathan/memory/detail/debug_helpers.hpp>
#include <foonathan/memory/error.hpp>
namespace verif_fix
{
    namespace mem = foonathan::memory;
    struct handler
    {
        void operator()(std::ptrdiff_t);
    };
    using checker = mem::detail::object_leak_checker<handler>;
    void* upstream(std::size_t);      // may throw
    void  release(void*) noexcept;
    struct good : checker
    {
        void* allocate_array(std::size_t count, std::size_t size, std::size_t)
        {
            void* p = upstream(count * size);
            on_allocate(count * size);
            return p;
        }
        void deallocate_array(void* p, std::size_t count, std::size_t size, std::size_t) noexcept
        {
            release(p);
            on_deallocate(size * count);
        }
    };
    struct counts_size_vs_total : checker
    {
        void* allocate_array(std::size_t count, std::size_t size, std::size_t)
        {
            void* p = upstream(count * size);
            on_allocate(count * size);
            return p;
        }
        void deallocate_array(void* p, std::size_t, std::size_t size, std::size_t) noexcept
        {
            release(p);
            on_deallocate(size);
        }
    };
    struct counts_before_throw : checker
    {
        void* allocate_node(std::size_t size, std::size_t)
        {
            on_allocate(size);
            return upstream(size);
        }
        void deallocate_node(void* p, std::size_t size, std::size_t) noexcept
        {
            release(p);
            on_deallocate(size);
        }
    };
    struct forgets_on_one_path : checker
    {
        void* allocate_node(std::size_t size, std::size_t)
        {
            void* p = upstream(size);
            on_allocate(size);
            return p;
        }
        void deallocate_node(void* p, std::size_t size, std::size_t) noexcept
        {
            release(p);
            if (size > 16)
                on_deallocate(size);
        }
    };
    struct counts_twice : checker
    {
        void* allocate_node(std::size_t size, std::size_t)
        {
            void* p = upstream(size);
            on_allocate(size);
            if (size > 16)
                on_allocate(size);
            return p;
        }
        void deallocate_node(void* p, std::size_t size, std::size_t) noexcept
        {
            release(p);
            on_deallocate(size);
        }
    };
    void use(good& a, counts_size_vs_total& b, counts_before_throw& c, forgets_on_one_path& d, counts_twice& e)
    {
        a.deallocate_array(a.allocate_array(1, 1, 1), 1, 1, 1);
        b.deallocate_array(b.allocate_array(1, 1, 1), 1, 1, 1);
        c.deallocate_node(c.allocate_node(1, 1), 1, 1);
        d.deallocate_node(d.allocate_node(1, 1), 1, 1);
        e.deallocate_node(e.allocate_node(1, 1), 1, 1);
    }
} // namespace verif_fix
