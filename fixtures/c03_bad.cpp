// R-NN fixture
// EXPECT-FIRE: returns_untested returns_null_literal asserted_only through_bad_helper tested_wrong_variable
// EXPECT-SILENT: tested_then_throw tested_positive from_throwing_new through_good_helper offset_of_tested
#include <cstdlib>
#include <new>
#include <foonathan/memory/error.hpp>
#include <foonathan/memory/detail/assert.hpp>
namespace verif_fix
{
    namespace mem = foonathan::memory;
    using namespace foonathan::memory; // the assertion macro is written for code inside the library's namespace
    mem::allocator_info info();
    void* tested_then_throw(std::size_t n)
    {
        void* p = std::malloc(n);
        if (!p)
            throw mem::out_of_memory(info(), n);
        return p;
    }
    void* tested_positive(std::size_t n)
    {
        void* p = std::malloc(n);
        if (p)
            return p;
        throw mem::out_of_memory(info(), n);
    }
    void* from_throwing_new(std::size_t n) { return ::operator new(n); }
    void* through_good_helper(std::size_t n) { return tested_then_throw(n); }
    char* offset_of_tested(std::size_t n)
    {
        auto p = static_cast<char*>(std::malloc(n));
        if (p == nullptr)
            throw mem::out_of_memory(info(), n);
        return p + 8;
    }
    void* returns_untested(std::size_t n) { return std::malloc(n); }
    void* returns_null_literal(std::size_t n)
    {
        if (n > 100)
            return nullptr;
        return tested_then_throw(n);
    }
    void* asserted_only(std::size_t n)
    {
        void* p = std::malloc(n);
        FOONATHAN_MEMORY_ASSERT(p);
        return p;
    }
    void* through_bad_helper(std::size_t n) { return returns_untested(n); }
    void* tested_wrong_variable(std::size_t n)
    {
        void* p = std::malloc(n);
        void* q = std::malloc(n);
        if (!q)
            throw mem::out_of_memory(info(), n);
        return p;
    }
} // namespace verif_fix
