// R-GUARD fixture: allocate-then-construct helpers
// EXPECT-FIRE: no_guard construct_before_guard throw_after_release handler_wrong_size handler_swallows guard_and_handler
// EXPECT-SILENT: good_guard good_try good_nothrow
#include <memory>
#include <foonathan/memory/deleter.hpp>
#include <foonathan/memory/memory_pool.hpp>
#include <foonathan/memory/smart_ptr.hpp>
namespace verif_fix
{
    namespace mem = foonathan::memory;
    using pool    = mem::memory_pool<>;
    using ref     = mem::allocator_reference<pool>;
    struct T
    {
        T() noexcept(false);
        ~T();
    };
    struct N
    {
        N() noexcept;
        ~N();
    };
    void may_throw();
    using raw_ptr = std::unique_ptr<T, mem::allocator_deallocator<T, pool>>;
    using fin_ptr = std::unique_ptr<T, mem::allocator_deleter<T, pool>>;

    fin_ptr good_guard(ref alloc)
    {
        auto    memory = alloc.allocate_node(sizeof(T), alignof(T));
        raw_ptr result(static_cast<T*>(memory), {alloc});
        ::new (memory) T();
        return {result.release(), {alloc}};
    }
    T* good_try(ref alloc)
    {
        auto mem = alloc.allocate_node(sizeof(T) + 8, alignof(T));
        T*   p   = nullptr;
        try
        {
            p = ::new (mem) T();
        }
        catch (...)
        {
            alloc.deallocate_node(mem, sizeof(T) + 8, alignof(T));
            throw;
        }
        return p;
    }
    N* good_nothrow(ref alloc)
    {
        auto mem = alloc.allocate_node(sizeof(N), alignof(N));
        return ::new (mem) N();
    }
    T* no_guard(ref alloc)
    {
        auto mem = alloc.allocate_node(sizeof(T), alignof(T));
        return ::new (mem) T();
    }
    fin_ptr construct_before_guard(ref alloc)
    {
        auto memory = alloc.allocate_node(sizeof(T), alignof(T));
        ::new (memory) T();
        raw_ptr result(static_cast<T*>(memory), {alloc});
        return {result.release(), {alloc}};
    }
    fin_ptr throw_after_release(ref alloc)
    {
        auto    memory = alloc.allocate_node(sizeof(T), alignof(T));
        raw_ptr result(static_cast<T*>(memory), {alloc});
        ::new (memory) T();
        T* p = result.release();
        may_throw();
        return {p, {alloc}};
    }
    T* handler_wrong_size(ref alloc)
    {
        auto mem = alloc.allocate_node(sizeof(T) + 8, alignof(T));
        T*   p   = nullptr;
        try
        {
            p = ::new (mem) T();
        }
        catch (...)
        {
            alloc.deallocate_node(mem, sizeof(T), alignof(T));
            throw;
        }
        return p;
    }
    T* handler_swallows(ref alloc)
    {
        auto mem = alloc.allocate_node(sizeof(T), alignof(T));
        T*   p   = nullptr;
        try
        {
            p = ::new (mem) T();
        }
        catch (...)
        {
            alloc.deallocate_node(mem, sizeof(T), alignof(T));
        }
        return p;
    }
    fin_ptr guard_and_handler(ref alloc)
    {
        auto    memory = alloc.allocate_node(sizeof(T), alignof(T));
        raw_ptr result(static_cast<T*>(memory), {alloc});
        try
        {
            ::new (memory) T();
        }
        catch (...)
        {
            alloc.deallocate_node(memory, sizeof(T), alignof(T));
            throw;
        }
        return {result.release(), {alloc}};
    }
} // namespace verif_fix
