// R-BOUND / R-CONSUME fixture
// EXPECT-FIRE: bump_one_fence_short bump_strict_guard bump_unchecked bump_other_region consume_forgets consume_throw_edge
// EXPECT-SILENT: bump_good bump_good_flipped bump_to_end consume_good consume_then_reassign
#include <foonathan/memory/detail/memory_stack.hpp>
#include <foonathan/memory/detail/free_list.hpp>
namespace verif_fix
{
    namespace d = foonathan::memory::detail;
    struct two
    {
        d::fixed_memory_stack stacks_[2];
        const char*           ends_[2];
        std::size_t           cur_;
        const char* end(std::size_t i) const { return ends_[i]; }
    };
    void* grow(); // may throw
    struct s : two
    {
        d::fixed_memory_stack stack_;
        const char*           end_;
        d::free_memory_list   list_{16};
        void* bump_good(std::size_t size)
        {
            auto fence = d::debug_fence_size;
            if (fence + size + fence > std::size_t(end_ - stack_.top()))
                return nullptr;
            return stack_.allocate_unchecked(size, 0);
        }
        void* bump_good_flipped(std::size_t size)
        {
            auto remaining = std::size_t(end_ - stack_.top());
            auto need      = size + 2 * d::debug_fence_size;
            if (remaining < need)
                return nullptr;
            return stack_.allocate_unchecked(size, 0);
        }
        void bump_to_end()
        {
            if (auto remaining = std::size_t(end_ - stack_.top()))
                stack_.bump(remaining);
        }
        void* bump_one_fence_short(std::size_t size)
        {
            auto fence = d::debug_fence_size;
            if (fence + size > std::size_t(end_ - stack_.top()))
                return nullptr;
            return stack_.allocate_unchecked(size, 0);
        }
        void* bump_strict_guard(std::size_t size)
        {
            auto fence = d::debug_fence_size;
            if (fence + size + fence >= std::size_t(end_ - stack_.top()))
                return nullptr;
            return stack_.allocate_unchecked(size, 0);
        }
        void* bump_unchecked(std::size_t size) { return stack_.allocate_unchecked(size, 0); }
        void* bump_other_region(std::size_t size)
        {
            auto& st = stacks_[cur_];
            if (2 * d::debug_fence_size + size > std::size_t(end(1) - st.top()))
                return nullptr;
            return st.allocate_unchecked(size, 0);
        }
        void consume_good()
        {
            auto remaining = std::size_t(end_ - stack_.top());
            auto mem       = stack_.top();
            stack_.bump(remaining);
            list_.insert(mem, remaining);
        }
        void consume_then_reassign()
        {
            list_.insert(stack_.top(), std::size_t(end_ - stack_.top()));
            stack_ = d::fixed_memory_stack(nullptr);
        }
        void consume_forgets() { list_.insert(stack_.top(), std::size_t(end_ - stack_.top())); }
        void consume_throw_edge()
        {
            list_.insert(stack_.top(), std::size_t(end_ - stack_.top()));
            stack_ = d::fixed_memory_stack(grow());
        }
    };
} // namespace verif_fix
