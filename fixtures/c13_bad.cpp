// R-LOCK fixture: a storage-like class whose members reach the wrapped allocator with / without the lock.
// EXPECT-FIRE: no_lock lock_too_late lock_scope_ended deferred_lock unlocked_early lock_on_one_branch
// EXPECT-SILENT: good_guard good_unique good_nested
#include <mutex>
#include <foonathan/memory/allocator_storage.hpp>
#include <foonathan/memory/memory_pool.hpp>
namespace verif_fix
{
    namespace mem = foonathan::memory;
    using pool    = mem::memory_pool<>;
    struct storage : mem::direct_storage<pool>, mem::detail::mutex_storage<std::mutex>
    {
        using traits = mem::allocator_traits<pool>;
        using mtx    = const mem::detail::mutex_storage<std::mutex>;
        void* no_lock(std::size_t s, std::size_t a)
        {
            auto&& alloc = get_allocator();
            return traits::allocate_node(alloc, s, a);
        }
        void* lock_too_late(std::size_t s, std::size_t a)
        {
            auto&& alloc = get_allocator();
            void*  p     = traits::allocate_node(alloc, s, a);
            std::lock_guard<mtx> lock(*this);
            return p;
        }
        void* lock_scope_ended(std::size_t s, std::size_t a)
        {
            {
                std::lock_guard<mtx> lock(*this);
            }
            return traits::allocate_node(get_allocator(), s, a);
        }
        void* deferred_lock(std::size_t s, std::size_t a)
        {
            std::unique_lock<mtx> lock(*this, std::defer_lock);
            return traits::allocate_node(get_allocator(), s, a);
        }
        void* unlocked_early(std::size_t s, std::size_t a)
        {
            std::unique_lock<mtx> lock(*this);
            lock.unlock();
            return traits::allocate_node(get_allocator(), s, a);
        }
        void* lock_on_one_branch(std::size_t s, std::size_t a)
        {
            if (s > 8)
            {
                std::lock_guard<mtx> lock(*this);
                return traits::allocate_node(get_allocator(), s, a);
            }
            return traits::allocate_node(get_allocator(), s, a);
        }
        void* good_guard(std::size_t s, std::size_t a)
        {
            std::lock_guard<mtx> lock(*this);
            auto&&               alloc = get_allocator();
            return traits::allocate_node(alloc, s, a);
        }
        void* good_unique(std::size_t s, std::size_t a)
        {
            std::unique_lock<mtx> lock(*this);
            return traits::allocate_node(get_allocator(), s, a);
        }
        std::size_t good_nested(bool b) const
        {
            std::lock_guard<mtx> lock(*this);
            if (b)
                return traits::max_node_size(get_allocator());
            return traits::max_array_size(get_allocator());
        }
    };
} // namespace verif_fix
