// R-FWD fixture: wrappers that forward wrongly / correctly.
// EXPECT-FIRE: drops_alignment_on_release swaps_selector shrinks_size node_as_array_floor releases_twice forwards_nothing wrong_target
// EXPECT-SILENT: good_plain good_max good_max_ternary good_split good_commuted
#include <foonathan/memory/allocator_traits.hpp>
#include <foonathan/memory/memory_pool.hpp>
namespace verif_fix
{
    namespace mem = foonathan::memory;
    using pool    = mem::memory_pool<>;
    using traits  = mem::allocator_traits<pool>;
    struct base
    {
        pool        a_, b_;
        std::size_t min_;
        std::size_t max_;
    };
    struct good_plain : base
    {
        void* allocate_node(std::size_t size, std::size_t alignment) { return traits::allocate_node(a_, size, alignment); }
        void  deallocate_node(void* p, std::size_t size, std::size_t alignment) noexcept { traits::deallocate_node(a_, p, size, alignment); }
    };
    struct good_max : base
    {
        void* allocate_node(std::size_t size, std::size_t alignment)
        {
            if (min_ > alignment)
                alignment = min_;
            return traits::allocate_node(a_, size, alignment);
        }
        void deallocate_node(void* p, std::size_t size, std::size_t alignment) noexcept
        {
            if (alignment < min_)
                alignment = min_;
            traits::deallocate_node(a_, p, size, alignment);
        }
    };
    struct good_max_ternary : base
    {
        void* allocate_node(std::size_t size, std::size_t alignment)
        {
            auto al = alignment;
            if (min_ > al)
                al = min_;
            void* res = traits::allocate_node(a_, size, al);
            return res;
        }
        void deallocate_node(void* p, std::size_t size, std::size_t alignment) noexcept
        {
            if (!(min_ <= alignment))
                alignment = min_;
            traits::deallocate_node(a_, p, size, alignment);
        }
    };
    struct good_split : base
    {
        void* allocate_array(std::size_t count, std::size_t size, std::size_t alignment)
        {
            if (count == 1)
                return traits::allocate_node(a_, size, alignment);
            return traits::allocate_array(a_, count, size, alignment);
        }
        void deallocate_array(void* p, std::size_t count, std::size_t size, std::size_t alignment) noexcept
        {
            if (1 == count)
                traits::deallocate_node(a_, p, size, alignment);
            else
                traits::deallocate_array(a_, p, count, size, alignment);
        }
    };
    struct good_commuted : base
    {
        void* allocate_array(std::size_t count, std::size_t size, std::size_t alignment) { return traits::allocate_node(a_, count * size, alignment); }
        void  deallocate_array(void* p, std::size_t count, std::size_t size, std::size_t alignment) noexcept
        {
            auto total = size * count;
            traits::deallocate_node(a_, p, total, alignment);
        }
    };
    struct drops_alignment_on_release : base
    {
        void* allocate_node(std::size_t size, std::size_t alignment)
        {
            if (min_ > alignment)
                alignment = min_;
            return traits::allocate_node(a_, size, alignment);
        }
        void deallocate_node(void* p, std::size_t size, std::size_t alignment) noexcept { traits::deallocate_node(a_, p, size, alignment); }
    };
    struct swaps_selector : base
    {
        void* allocate_node(std::size_t size, std::size_t alignment)
        {
            if (size <= max_)
                return traits::allocate_node(a_, size, alignment);
            return traits::allocate_node(b_, size, alignment);
        }
        void deallocate_node(void* p, std::size_t size, std::size_t alignment) noexcept
        {
            if (size < max_)
                traits::deallocate_node(a_, p, size, alignment);
            else
                traits::deallocate_node(b_, p, size, alignment);
        }
    };
    struct shrinks_size : base
    {
        void* allocate_node(std::size_t size, std::size_t alignment) { return traits::allocate_node(a_, size - 1, alignment); }
        void  deallocate_node(void* p, std::size_t size, std::size_t alignment) noexcept { traits::deallocate_node(a_, p, size - 1, alignment); }
    };
    struct node_as_array_floor : base
    {
        void* allocate_node(std::size_t size, std::size_t alignment) { return traits::allocate_array(a_, size / max_, max_, alignment); }
        void  deallocate_node(void* p, std::size_t size, std::size_t alignment) noexcept { traits::deallocate_array(a_, p, size / max_, max_, alignment); }
    };
    struct releases_twice : base
    {
        void* allocate_node(std::size_t size, std::size_t alignment) { return traits::allocate_node(a_, size, alignment); }
        void  deallocate_node(void* p, std::size_t size, std::size_t alignment) noexcept
        {
            traits::deallocate_node(a_, p, size, alignment);
            traits::deallocate_node(a_, p, size, alignment);
        }
    };
    struct forwards_nothing : base
    {
        void* allocate_node(std::size_t size, std::size_t alignment) { return traits::allocate_node(a_, size, alignment); }
        void  deallocate_node(void* p, std::size_t size, std::size_t alignment) noexcept
        {
            if (size > max_)
                return;
            traits::deallocate_node(a_, p, size, alignment);
        }
    };
    struct wrong_target : base
    {
        void* allocate_node(std::size_t size, std::size_t alignment) { return traits::allocate_node(a_, size, alignment); }
        void  deallocate_node(void* p, std::size_t size, std::size_t alignment) noexcept { traits::deallocate_node(b_, p, size, alignment); }
    };
    void use(good_plain& a, good_max& b, good_max_ternary& c, good_split& d, good_commuted& e, drops_alignment_on_release& f, swaps_selector& g,
             shrinks_size& h, node_as_array_floor& i, releases_twice& j, forwards_nothing& k, wrong_target& l);
} // namespace verif_fix
