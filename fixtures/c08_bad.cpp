// R-OWN fixture
// EXPECT-FIRE: no_test test_after_release true_without_test releases_on_false_branch tests_other_pointer
// EXPECT-SILENT: good_early_return good_returns_test good_nested_if
#include <foonathan/memory/memory_arena.hpp>
#include <foonathan/memory/detail/free_list.hpp>
namespace verif_fix
{
    namespace mem = foonathan::memory;
    struct base
    {
        mem::memory_block                    block_;
        mem::detail::free_memory_list        list_;
        void*                                other_;
    };
    struct good_early_return : base
    {
        bool try_deallocate_node(void* ptr, std::size_t, std::size_t) noexcept
        {
            if (!block_.contains(ptr))
                return false;
            list_.deallocate(ptr);
            return true;
        }
    };
    struct good_returns_test : base
    {
        bool try_deallocate_node(void* ptr, std::size_t, std::size_t) noexcept { return block_.contains(ptr); }
    };
    struct good_nested_if : base
    {
        bool try_deallocate_node(void* ptr, std::size_t size, std::size_t) noexcept
        {
            if (size <= 16 && block_.contains(ptr))
            {
                list_.deallocate(ptr);
                return true;
            }
            return false;
        }
    };
    struct no_test : base
    {
        bool try_deallocate_node(void* ptr, std::size_t, std::size_t) noexcept
        {
            list_.deallocate(ptr);
            return true;
        }
    };
    struct test_after_release : base
    {
        bool try_deallocate_node(void* ptr, std::size_t, std::size_t) noexcept
        {
            list_.deallocate(ptr);
            if (!block_.contains(ptr))
                return false;
            return true;
        }
    };
    struct true_without_test : base
    {
        bool try_deallocate_node(void* ptr, std::size_t size, std::size_t) noexcept
        {
            if (size > 16)
                return true;
            if (!block_.contains(ptr))
                return false;
            list_.deallocate(ptr);
            return true;
        }
    };
    struct releases_on_false_branch : base
    {
        bool try_deallocate_node(void* ptr, std::size_t, std::size_t) noexcept
        {
            if (block_.contains(ptr))
                return true;
            list_.deallocate(ptr);
            return false;
        }
    };
    struct tests_other_pointer : base
    {
        bool try_deallocate_node(void* ptr, std::size_t, std::size_t) noexcept
        {
            if (!block_.contains(other_))
                return false;
            list_.deallocate(ptr);
            return true;
        }
    };
} // namespace verif_fix
