// R-GROW fixture
// EXPECT-FIRE: grows_always grows_below_threshold array_grows_first
// EXPECT-SILENT: good_node good_node_capacity good_array
#include <foonathan/memory/memory_arena.hpp>
#include <foonathan/memory/detail/free_list.hpp>
namespace verif_fix
{
    namespace mem = foonathan::memory;
#define MEMBERS                                                                                    \
    mem::memory_arena<mem::growing_block_allocator<>, false> arena_{1024};                         \
    mem::detail::free_memory_list                            list_{16};                            \
    void                                                     grow()                                \
    {                                                                                              \
        auto b = arena_.allocate_block();                                                          \
        list_.insert(b.memory, b.size);                                                            \
    }
    struct good_node
    {
        MEMBERS
        void* allocate_node()
        {
            if (list_.empty())
                grow();
            return list_.allocate();
        }
    };
    struct good_node_capacity
    {
        MEMBERS
        void* allocate_node()
        {
            if (list_.capacity() == 0)
                grow();
            return list_.allocate();
        }
    };
    struct good_array
    {
        MEMBERS
        void* allocate_array(std::size_t n)
        {
            auto mem = list_.empty() ? nullptr : list_.allocate(n);
            if (!mem)
            {
                grow();
                mem = list_.allocate(n);
            }
            return mem;
        }
    };
    struct grows_always
    {
        MEMBERS
        void* allocate_node()
        {
            grow();
            return list_.allocate();
        }
    };
    struct grows_below_threshold
    {
        MEMBERS
        void* allocate_node()
        {
            if (list_.capacity() < 4)
                grow();
            return list_.allocate();
        }
    };
    struct array_grows_first
    {
        MEMBERS
        void* allocate_array(std::size_t n)
        {
            grow();
            return list_.allocate(n);
        }
    };
} // namespace verif_fix
