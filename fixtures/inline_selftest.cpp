// self-test of engine/inline.py: helpers no rule names must be spliced into their callers, helpers the rules name must stay calls
#include <cstddef>
namespace foonathan { namespace memory { namespace verif_inline_probe
{
    namespace
    {
        std::size_t zz_round_probe(std::size_t bytes, std::size_t unit) noexcept
        {
            return (bytes + unit - 1) / unit * unit;
        }
    }
    class probe
    {
    public:
        std::size_t outer_member(std::size_t n)          // after inlining: writes cur_ itself, no call of zz_bump_probe
        {
            if (n == 0u)
                return 0u;
            return zz_bump_probe(n) + 1u;
        }
        std::size_t outer_free(std::size_t n) noexcept   // after inlining: no call of zz_round_probe
        {
            return zz_round_probe(n, 8u);
        }
        std::size_t outer_known(std::size_t n)           // block_end is a name the rules use: stays a call
        {
            return block_end() + n;
        }
        std::size_t outer_out()                          // helper with a reference out-parameter: the caller's local is assigned
        {
            std::size_t v = 0u;
            zz_out_probe(v);
            return v;
        }
        std::size_t outer_closure(std::size_t n)         // a closure defined and called here: its assignment to the captured local is the caller's
        {
            std::size_t acc = 0u;
            auto        add = [&](std::size_t k) { acc = acc + k + cur_; };
            add(n);
            add(1u);
            return acc;
        }
        void outer_other(probe& other)                   // helper called on another object of the same class
        {
            other.zz_reset_probe();
        }
    private:
        std::size_t zz_bump_probe(std::size_t n)
        {
            std::size_t old = cur_;
            cur_ += n;
            return old;
        }
        void zz_out_probe(std::size_t& out) const noexcept
        {
            out = cur_ + 1u;
        }
        void zz_reset_probe() noexcept
        {
            cur_ = 0u;
        }
        std::size_t block_end() const noexcept
        {
            return cur_ + 64u;
        }
        std::size_t cur_ = 0u;
    };
    inline std::size_t use(probe& a, probe& b)
    {
        a.outer_other(b);
        return a.outer_member(3u) + a.outer_free(5u) + a.outer_known(1u) + a.outer_out() + a.outer_closure(2u);
    }
}}}
